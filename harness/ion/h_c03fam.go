package ion

// Structured binary families (C03 / C07 / C06 beyond n arbitrary bytes): one value of any type code with a body of
// n bytes (n symbolic up to N, so that the length boundaries 13/14/15 and the VarUInt length form are inside the
// range), symbolic payload bytes, every length representation the format allows (inline, L=14 VarUInt, VarUInt
// over-padded with a leading 0x00), optionally inside an annotation wrapper, a list or a struct (incl. the sorted
// L=1 struct form), and with the declared length off by delta (param) from the bytes present. The independent
// decoder refBinDecode decides whether the document is well-formed and what it denotes; the real Reader must
// agree: the same events with the same payloads (C03), or an error (C07), and never a panic (C06).

// vFamBody builds a body of n bytes that is valid for type code t (returns ok=false when no body of that length is
// valid, e.g. a 3-byte float). Payload bytes are symbolic where the format does not constrain them.
func vFamBody(t, n int) (body []byte, ok bool) {
	if vparam("sym", 1) == 0 && n > 0 {
		// fully concrete payloads (used with delta != 0, where a symbolic payload byte would be re-read as a tag)
		switch t {
		case 4:
			if n != 4 && n != 8 {
				return nil, false
			}
		case 7:
			if n > 8 {
				return nil, false
			}
			body = make([]byte, n)
			body[n-1] = 4
			return body, true
		case 8:
			body = make([]byte, n)
			for i := range body {
				body[i] = 'a' + byte(i%26)
			}
			return body, true
		case 11, 12, 13:
			goto structured
		}
		body = make([]byte, n)
		for i := range body {
			body[i] = 0xF0 + byte(i%16)
		}
		if t == 5 {
			body[0] = 0xC1
		}
		return body, true
	}
structured:
	switch t {
	case 2, 3: // int magnitude (symbolic content up to 2 bytes; content of longer ints is H_C13's subject)
		if n <= 2 {
			body = vnondetBytes(n)
			if t == 3 {
				nz := false
				for _, c := range body {
					if c != 0 {
						nz = true
					}
				}
				vassume(nz) // negative zero is illegal
			}
			return body, true
		}
		body = make([]byte, n)
		for i := range body {
			body[i] = byte(i + 1)
		}
		return body, true
	case 4:
		if n != 0 && n != 4 && n != 8 {
			return nil, false
		}
		return vnondetBytes(n), true
	case 5: // decimal: one-byte exponent, coefficient of n-1 bytes
		if n == 0 {
			return nil, true
		}
		e := vnondetU8() | 0x80
		if n-1 <= 2 {
			return vCat([]byte{e}, vnondetBytes(n-1)), true
		}
		c := make([]byte, n-1)
		for i := range c {
			c[i] = byte(i + 1)
		}
		return vCat([]byte{e}, c), true
	case 7: // symbol ID: zero padding and a system symbol ID
		if n == 0 {
			return nil, true
		}
		if n > 8 {
			return nil, false
		}
		body = make([]byte, n)
		sid := vnondetU8()
		vassume(sid <= 9)
		body[n-1] = sid
		return body, true
	case 8: // string: ASCII
		if n <= 2 {
			body = vnondetBytes(n)
			for _, c := range body {
				vassume(c < 0x80)
			}
			return body, true
		}
		body = make([]byte, n)
		for i := range body {
			body[i] = 'a' + byte(i%26)
		}
		return body, true
	case 9, 10:
		if n <= 2 {
			return vnondetBytes(n), true
		}
		body = make([]byte, n)
		for i := range body {
			body[i] = 0xF0 + byte(i%16) // bytes that are no valid tags, so a mis-sized lob cannot be mistaken for values
		}
		body[0] = vnondetU8()
		return body, true
	case 11, 12: // sequence of ints 0, optionally led by a NOP pad
		body = make([]byte, n)
		for i := range body {
			body[i] = 0x20
		}
		if n >= 2 && vnondetBool() {
			body[0], body[1] = 0x01, 0xAA
		}
		return body, true
	case 13: // field/value pairs, an odd length starts with field + 1-byte NOP pad
		if n == 1 {
			return nil, false
		}
		for len(body)+2 <= n-(n%2)*3 {
			body = append(body, 0x84, 0x20)
		}
		if n%2 == 1 {
			body = vCat([]byte{0x84, 0x01, 0xAA}, body)
		}
		return body, true
	}
	return nil, false
}

// vFamValue encodes tag+length+body with the chosen length representation; declared = len(body)+delta.
func vFamValue(t int, body []byte, lenEnc, delta int, sorted bool) ([]byte, bool) {
	declared := len(body) + delta
	if declared < 0 {
		return nil, false
	}
	code := byte(t) << 4
	if sorted {
		// sorted struct: L=1, VarUInt length always
		if declared == 0 || declared > 127 {
			return nil, false
		}
		return vCat([]byte{code | 1, 0x80 | byte(declared)}, body), true
	}
	switch lenEnc {
	case 0:
		if declared < 14 {
			if t == 13 && declared == 1 {
				return nil, false // D1 is the sorted form
			}
			return vCat([]byte{code | byte(declared)}, body), true
		}
		return vCat([]byte{code | 14, 0x80 | byte(declared)}, body), true
	case 1:
		return vCat([]byte{code | 14, 0x80 | byte(declared)}, body), true
	default:
		return vCat([]byte{code | 14, 0x00, 0x80 | byte(declared)}, body), true
	}
}

func H_C03_family() {
	N := vparam("N", 16)
	delta := vparam("delta", 0)
	t := vnondetInt(2, 13)
	vassume(t != 6) // timestamps: C15
	n := vnondetInt(0, N)
	body, ok := vFamBody(t, n)
	vassume(ok)
	lenEnc := vnondetInt(0, 2)
	sorted := false
	if t == 13 && lenEnc == 2 && vnondetBool() {
		sorted = true
	}
	val, ok := vFamValue(t, body, lenEnc, delta, sorted)
	vassume(ok)
	var doc []byte
	switch wrap := vnondetInt(0, 3); wrap {
	case 0:
		doc = vCat(vBVM, val, []byte{0x21, 0x07})
	case 1: // annotation wrapper with one annotation ($4), VarUInt length when needed
		inner := vCat([]byte{0x81, 0x84}, val)
		w, _ := vFamValue(14, inner, 0, 0, false)
		doc = vCat(vBVM, w, []byte{0x21, 0x07})
	case 2:
		w, _ := vFamValue(11, vCat(val, []byte{0x20}), 0, 0, false)
		doc = vCat(vBVM, w, []byte{0x21, 0x07})
	default:
		w, _ := vFamValue(13, vCat([]byte{0x85}, val, []byte{0x84, 0x20}), 0, 0, false)
		doc = vCat(vBVM, w, []byte{0x21, 0x07})
	}
	d, wellFormed := refBinDecode(doc, nil)
	vassume(!d.unsure && !d.undef)
	r := NewReaderBytes(doc)
	var evs []vEv
	stepErr := vTraverse(r, 0, 8, false, &evs)
	err := r.Err()
	if !wellFormed {
		vassert(err != nil || stepErr, "malformed binary input ends in an error")
		vcover("malformed")
	} else {
		vassert(err == nil && !stepErr, "well-formed binary input is read without error")
		us := d.user()
		vassert(len(evs) == len(us), "the Reader yields exactly the encoded values")
		for i := range us {
			vassert(rMatches(us[i], evs[i]), "each value is decoded to exactly its encoded type, annotations, field name and payload")
		}
		vcover("wellformed")
	}
	vAfter(r)
	vobserve("nev", uint64(len(evs)))
	vcover("end")
}
