package ion

// C07 (binary): every byte string of n bytes after the version marker that the specification-derived validator
// refBinValid rejects must end a full traversal with a non-nil Err; C03 (acceptance half): every string it accepts must
// be traversed without error and yield exactly the number of values the validator counted.
// Outside the claim (assumed away, flagged by the validator): timestamps with a body (stdlib time), symbol IDs
// above the system table's max_id (their legality is decided by the symbol table, C10), L=1 structs of length 0.

func H_C07_bin() {
	n := vparam("n", 1)
	b := vnondetBytes(n)
	// param kind > 0: the n symbolic bytes are the body of a container / wrapper whose declared length is exactly n
	// (list 0xB, sexp 0xC, struct 0xD with field name $4, annotation wrapper 0xE with annotation $4), followed by
	// one more top-level value (int 0), so that a child overrunning its parent would be absorbed if unchecked.
	switch kind := vparam("kind", 0); kind {
	case 0xB, 0xC:
		b = vCat(vTLV(byte(kind)<<4, b...), []byte{0x20})
	case 0xD:
		b = vCat(vTLV(0xD0, vCat([]byte{0x84}, b)...), []byte{0x20})
	case 0xE:
		b = vCat(vTLV(0xE0, vCat([]byte{0x81, 0x84}, b)...), []byte{0x20})
	case 0xD1: // a struct whose whole body is symbolic: the field name too (e.g. padding named by an undefined ID)
		b = vCat(vTLV(0xD0, b...), []byte{0x20})
	}
	ok, p := refBinValid(b, 9)
	vassume(!p.grey && !p.ts)
	r := NewReaderBytes(vWithBVM(b))
	var evs []vEv
	stepErr := vTraverse(r, 0, 8, false, &evs)
	err := r.Err()
	if !ok {
		vassert(err != nil || stepErr, "malformed binary input ends in an error")
		vcover("malformed")
	} else {
		vassert(err == nil && !stepErr, "well-formed binary input is read without error")
		vassert(len(evs) == p.nvals, "the Reader yields exactly the encoded values")
		for i := range evs {
			vassert(!evs[i].accErr && !evs[i].annErr && !evs[i].field.err, "every accessor of a well-formed value succeeds")
		}
		vcover("wellformed")
	}
	vAfter(r)
	vobserve("nev", uint64(len(evs)))
	vcover("end")
}
