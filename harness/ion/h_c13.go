package ion

import (
	"bytes"
	"math/big"
)

// C13: numbers are never silently truncated, wrapped or rounded.

func vStopBitsOK(b []byte) bool {
	ok := true
	for i, c := range b {
		if (c&0x80 != 0) != (i == len(b)-1) {
			ok = false
		}
	}
	return ok
}

// Every well-formed VarUInt of 1..10 bytes is decoded exactly or rejected; it is never wrapped modulo 2^64.
func H_C13_varuint_read() {
	n := vnondetInt(1, 10)
	buf := vnondetBytes(n)
	vassume(vStopBitsOK(buf))
	want, fits, ok := refVarUint(buf)
	vassume(ok)
	var b bitstream
	b.InitBytes(buf)
	got, gl, err := b.readVarUintLen(uint64(n))
	if err == nil {
		vassert(gl == uint64(n), "readVarUintLen reports the bytes consumed")
		vassert(fits, "VarUInt beyond 64 bits is an error, never a wrapped value")
		vassert(got == want, "VarUInt decoded exactly")
		vobserve("got", got)
		vcover("ok")
	} else {
		vassert(!fits, "every VarUInt that fits 64 bits is decoded")
		vcover("rejected")
	}
	vcover("end")
}

// Every well-formed VarInt of 1..10 bytes is decoded exactly or rejected.
func H_C13_varint_read() {
	n := vnondetInt(1, 10)
	buf := vnondetBytes(n)
	vassume(vStopBitsOK(buf))
	mag, neg, fits, ok := refVarInt(buf)
	vassume(ok)
	var b bitstream
	b.InitBytes(buf)
	got, sign, gl, err := b.readVarIntLen(uint64(n))
	if err == nil {
		vassert(gl == uint64(n), "readVarIntLen reports the bytes consumed")
		vassert(fits && mag>>63 == 0, "VarInt beyond 63 bits is an error, never a wrapped value")
		if neg {
			vassert(sign == -1 && got == -int64(mag), "negative VarInt decoded exactly")
		} else {
			vassert(sign == 1 && got == int64(mag), "non-negative VarInt decoded exactly")
		}
		vobserve("got", uint64(got))
		vcover("ok")
	} else {
		vassert(!fits || mag>>63 != 0, "every VarInt that fits int64 is decoded")
		vcover("rejected")
	}
	vcover("end")
}

// A binary int with n magnitude bytes (any bytes, either sign) through the real Reader: IntSize never too small,
// IntValue / Int64Value exact when the value fits and an error otherwise, BigIntValue always exact.
func H_C13_int_accessors() {
	// bound: 0..7 fully symbolic magnitude bytes; with 8 magnitude bytes (param top >= 0) the top byte is the concrete
	// boundary value `top` and the other 7 bytes are symbolic (a symbolic top byte leaves the BV<->Int queries behind
	// math/big undecided within the solver timeout).
	top := vparam("top", -1)
	var n int
	var neg bool
	var body []byte
	if top >= 0 {
		n = 8
		neg = vnondetBool()
		body = append([]byte{byte(top)}, vnondetBytes(7)...)
	} else {
		n = vnondetInt(0, 7)
		neg = vnondetBool()
		body = vnondetBytes(n)
	}
	mag, _ := refUint(body)
	code := byte(0x20)
	if neg {
		code = 0x30
	}
	// encoding freedom: pad leading zero bytes in front of the magnitude (over-padded ints are valid Ion)
	if pad := vparam("pad", 0); pad > 0 {
		body = vCat(make([]byte, pad), body)
	}
	doc := vCat(vBVM, vTLV(code, body...))
	r := NewReaderBytes(doc)
	if !r.Next() {
		vassert(neg && mag == 0, "only negative zero is rejected")
		vassert(r.Err() != nil, "negative zero ends in an error")
		vcover("negzero")
		vcover("end")
		return
	}
	vassert(r.Type() == IntType && !r.IsNull(), "an int is read")
	vassert(!(neg && mag == 0), "negative zero is never accepted")
	fits64 := mag>>63 == 0 || (neg && mag == 1<<63)
	var v int64
	if neg {
		v = -int64(mag)
	} else {
		v = int64(mag)
	}
	fits32 := fits64 && v >= -(1<<31) && v <= (1<<31)-1
	sz, err := r.IntSize()
	vassert(err == nil, "IntSize succeeds on an int")
	if !fits64 {
		vassert(sz == BigInt, "IntSize names BigInt beyond int64")
	} else if !fits32 {
		vassert(sz == Int64 || sz == BigInt, "IntSize never names Int32 beyond int32")
	} else {
		vassert(sz == Int32 || sz == Int64 || sz == BigInt, "IntSize names a width")
	}
	i64, err := r.Int64Value()
	if fits64 {
		vassert(err == nil && i64 != nil && *i64 == v, "Int64Value exact when the value fits")
		vcover("fits64")
	} else {
		vassert(err != nil, "Int64Value errors beyond int64")
		vcover("big")
	}
	i, err := r.IntValue()
	if fits32 {
		vassert(err == nil && i != nil && int64(*i) == v, "IntValue exact when the value fits int32")
	} else {
		vassert(err != nil, "IntValue errors beyond int32")
	}
	bi, err := r.BigIntValue()
	vassert(err == nil && bi != nil, "BigIntValue succeeds")
	want := new(big.Int).SetBytes(body) // big-endian magnitude per the math/big documentation
	if neg {
		want.Neg(want)
	}
	if fits64 {
		vassert(bi.IsInt64() && bi.Int64() == v, "BigIntValue exact (int64 range)")
	} else {
		vassert(bi.Cmp(want) == 0, "BigIntValue exact")
	}
	vobserve("mag", mag)
	vcover("end")
}

// Typed nulls: the accessor of the value's own type returns nil without error; accessors of other types return an
// error; none panics. tag = any type code with L=15.
func H_C13_null_accessors() {
	t := vnondetInt(0, 13)
	doc := vCat(vBVM, []byte{byte(t)<<4 | 0x0F})
	r := NewReaderBytes(doc)
	vassert(r.Next(), "a typed null is a value")
	vassert(r.IsNull(), "IsNull on a typed null")
	typ := r.Type()
	bv, e1 := r.BoolValue()
	vassert(bv == nil && (e1 == nil) == (typ == BoolType), "BoolValue on typed null")
	iv, e2 := r.IntValue()
	vassert(iv == nil && (e2 == nil) == (typ == IntType), "IntValue on typed null")
	lv, e3 := r.Int64Value()
	vassert(lv == nil && (e3 == nil) == (typ == IntType), "Int64Value on typed null")
	gv, e4 := r.BigIntValue()
	vassert(gv == nil && (e4 == nil) == (typ == IntType), "BigIntValue on typed null")
	fv, e5 := r.FloatValue()
	vassert(fv == nil && (e5 == nil) == (typ == FloatType), "FloatValue on typed null")
	dv, e6 := r.DecimalValue()
	vassert(dv == nil && (e6 == nil) == (typ == DecimalType), "DecimalValue on typed null")
	tv, e7 := r.TimestampValue()
	vassert(tv == nil && (e7 == nil) == (typ == TimestampType), "TimestampValue on typed null")
	sv, e8 := r.StringValue()
	vassert(sv == nil && (e8 == nil) == (typ == StringType), "StringValue on typed null")
	yv, e9 := r.SymbolValue()
	vassert(yv == nil && (e9 == nil) == (typ == SymbolType), "SymbolValue on typed null")
	xv, e10 := r.ByteValue()
	vassert(xv == nil && (e10 == nil) == (typ == BlobType || typ == ClobType), "ByteValue on typed null")
	vobserve("type", uint64(typ))
	vcover("end")
}

// WriteFloat stores 32 bits only when that is lossless: the real binary Writer followed by the real Reader returns
// the same float64 bits for every bit pattern (NaN comes back as a NaN).
func H_C13_float_roundtrip() {
	bits := vnondetU64()
	f := vf64frombits(bits)
	var out bytes.Buffer
	w := NewBinaryWriter(&out)
	vassert(w.WriteFloat(f) == nil, "WriteFloat succeeds")
	vassert(w.Finish() == nil, "Finish succeeds")
	enc := out.Bytes()
	vassert(len(enc) == 5 || len(enc) == 9 || len(enc) == 13, "BVM + 1, 5 or 9 bytes")
	r := NewReaderBytes(enc)
	vassert(r.Next() && r.Type() == FloatType, "a float is read back")
	g, err := r.FloatValue()
	vassert(err == nil && g != nil, "FloatValue succeeds")
	gb := vf64bits(*g)
	isNaN := bits&0x7FF0000000000000 == 0x7FF0000000000000 && bits&0x000FFFFFFFFFFFFF != 0
	if isNaN {
		vassert(gb&0x7FF0000000000000 == 0x7FF0000000000000 && gb&0x000FFFFFFFFFFFFF != 0, "NaN read back as NaN")
		vcover("nan")
	} else {
		vassert(gb == bits, "float64 bits survive the binary round trip")
		if len(enc) == 9 {
			vcover("f32")
		}
		if len(enc) == 13 {
			vcover("f64")
		}
	}
	vobserve("len", uint64(len(enc)))
	vcover("end")
}
