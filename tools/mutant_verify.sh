#!/bin/sh
# usage: mutant_verify.sh <dir with patch.diff + demo_test.go> [pkgdir=ion]
# Confirms in a scratch worktree of /repo HEAD: patch applies; suite failures unchanged; demo fails with the
# patch and passes without. Prints VERIFIED or the reason. The worktree is removed afterwards.
d="$1"; pkg="${2:-ion}"
export GOFLAGS=-mod=mod GOPROXY=off GOSUMDB=off GOTOOLCHAIN=local
wt=$(mktemp -d /tmp/mv_XXXXXX); rmdir "$wt"
git -C /repo worktree add --detach "$wt" HEAD >/dev/null 2>&1 || { echo "worktree failed"; exit 2; }
trap 'git -C /repo worktree remove --force "$wt" >/dev/null 2>&1' EXIT
base=$(/verif/tools/failing_tests.sh "$wt")
cp "$d/demo_test.go" "$wt/$pkg/zz_demo_test.go"
demo_base=$(cd "$wt" && go test -vet=off -count=1 -run 'Mutant|Demo|C[0-9][0-9]' ./$pkg/ 2>&1 | tail -3)
case "$demo_base" in *"
ok"*|ok*) ;; *) echo "DEMO-FAILS-ON-UNCHANGED: $demo_base"; exit 1;; esac
rm "$wt/$pkg/zz_demo_test.go"
git -C "$wt" apply "$d/patch.diff" || { echo "PATCH-DOES-NOT-APPLY"; exit 1; }
(cd "$wt" && go build ./... ) || { echo "DOES-NOT-BUILD"; exit 1; }
mut=$(/verif/tools/failing_tests.sh "$wt")
[ "$base" = "$mut" ] || { echo "SUITE-CHANGED:"; echo "$mut" | diff - /tmp/props/baseline_fail.txt; exit 1; }
cp "$d/demo_test.go" "$wt/$pkg/zz_demo_test.go"
demo_mut=$(cd "$wt" && go test -vet=off -count=1 -run 'Mutant|Demo|C[0-9][0-9]' ./$pkg/ 2>&1 | tail -3)
case "$demo_mut" in *FAIL*) echo "VERIFIED (demo fails with patch, passes without; suite failures unchanged)";; *) echo "DEMO-PASSES-WITH-PATCH: $demo_mut"; exit 1;; esac
