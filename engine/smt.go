package main

import (
	"bufio"
	"fmt"
	"io"
	"math/big"
	"os/exec"
	"strings"
	"time"
)

type Solver struct {
	cmd     *exec.Cmd
	in      io.WriteCloser
	out     *bufio.Reader
	bank    *TermBank
	depth   int
	Queries int
	Time    time.Duration
	declared map[string]bool
	log     io.Writer
}

func NewSolver(bank *TermBank, timeoutMs int) (*Solver, error) {
	cmd := exec.Command("z3", "-in", fmt.Sprintf("-t:%d", timeoutMs))
	in, _ := cmd.StdinPipe()
	out, _ := cmd.StdoutPipe()
	cmd.Stderr = cmd.Stdout
	if err := cmd.Start(); err != nil {
		return nil, err
	}
	s := &Solver{cmd: cmd, in: in, out: bufio.NewReader(out), bank: bank, declared: map[string]bool{}}
	s.send("(set-option :global-declarations true)")
	s.send("(set-option :produce-models true)")
	return s, nil
}

func (s *Solver) send(line string) {
	if s.log != nil {
		fmt.Fprintln(s.log, line)
	}
	io.WriteString(s.in, line+"\n")
}

// emit makes sure t and all its sub-terms are defined in the solver.
func (s *Solver) emit(t *Term) {
	if t.emitted {
		return
	}
	// iterative post-order to avoid deep recursion
	type fr struct {
		t *Term
		i int
	}
	st := []fr{{t, 0}}
	for len(st) > 0 {
		f := &st[len(st)-1]
		if f.t.emitted {
			st = st[:len(st)-1]
			continue
		}
		if f.i < len(f.t.args) {
			a := f.t.args[f.i]
			f.i++
			if !a.emitted {
				st = append(st, fr{a, 0})
			}
			continue
		}
		x := f.t
		switch x.op {
		case OConst:
		case OVar:
			if !s.declared[x.name] {
				s.declared[x.name] = true
				s.send(fmt.Sprintf("(declare-const %s %s)", x.name, x.sort))
			}
		default:
			s.send(fmt.Sprintf("(define-fun t%d () %s %s)", x.id, x.sort, x.body()))
		}
		x.emitted = true
		st = st[:len(st)-1]
	}
}

func (s *Solver) Push() { s.send("(push 1)"); s.depth++ }
func (s *Solver) Pop(n int) {
	if n <= 0 {
		return
	}
	s.send(fmt.Sprintf("(pop %d)", n))
	s.depth -= n
}
func (s *Solver) Assert(t *Term) {
	s.emit(t)
	s.send("(assert " + t.ref() + ")")
}

func (s *Solver) readLine() string {
	l, err := s.out.ReadString('\n')
	if err != nil {
		return "(error \"solver died: " + err.Error() + "\")"
	}
	return strings.TrimSpace(l)
}

// Check returns "sat", "unsat", or "unknown" (incl. any error line).
func (s *Solver) Check() string {
	t0 := time.Now()
	s.send("(check-sat)")
	r := s.readLine()
	s.Queries++
	s.Time += time.Since(t0)
	if r != "sat" && r != "unsat" {
		if strings.HasPrefix(r, "(error") {
			fmt.Println("SOLVER ERROR:", r)
		}
		return "unknown"
	}
	return r
}

// Model returns values for the given variables (must be called right after a sat Check).
func (s *Solver) Model(vars []*Term) map[string]*big.Int {
	m := map[string]*big.Int{}
	if len(vars) == 0 {
		return m
	}
	var sb strings.Builder
	sb.WriteString("(get-value (")
	for _, v := range vars {
		sb.WriteString(v.name + " ")
	}
	sb.WriteString("))")
	s.send(sb.String())
	// read until parens balance
	depth := 0
	var all strings.Builder
	for {
		l := s.readLine()
		all.WriteString(l + " ")
		depth += strings.Count(l, "(") - strings.Count(l, ")")
		if depth <= 0 {
			break
		}
	}
	txt := all.String()
	// parse pairs "(name #x.. )" or "(name #b..)" or "(name true)"
	txt = strings.NewReplacer("(", " ( ", ")", " ) ").Replace(txt)
	toks := strings.Fields(txt)
	for i := 0; i+1 < len(toks); i++ {
		if toks[i] == "(" && i+2 < len(toks) && toks[i+1] != "(" {
			name, val := toks[i+1], toks[i+2]
			switch {
			case strings.HasPrefix(val, "#x"):
				v, _ := new(big.Int).SetString(val[2:], 16)
				m[name] = v
			case strings.HasPrefix(val, "#b"):
				v, _ := new(big.Int).SetString(val[2:], 2)
				m[name] = v
			case val == "true":
				m[name] = big.NewInt(1)
			case val == "false":
				m[name] = big.NewInt(0)
			}
		}
	}
	return m
}

func (s *Solver) Close() {
	s.send("(exit)")
	s.in.Close()
	s.cmd.Wait()
}
