package ion

import "time"

// C15 (partial): timestamps keep instant, offset, precision and fraction digits in both formats.
//
// The standard library's calendar arithmetic (time.Date / absDate: chains of 64-bit divisions) is not decided by
// any installed solver for symbolic dates, so the DATE and TIME OF DAY are drawn from a table of calendar boundary
// cases (forked, concrete: first and last instants of the supported range, leap day, month ends, epoch) while the
// parts ion-go itself computes on stay symbolic: the fraction (a table of byte-boundary bases plus a symbolic 4-bit
// value, scaled to nanoseconds by the declared number of fraction digits), the fraction digit count 0..9, the precision, and
// the offset kind (UTC, unknown, local offsets from a table incl. +-23:59).
//   (params: half=1 stops after the independent decoder; symx=0 replaces the symbolic 4-bit part of the fraction by
//   two concrete choices - used for the Reader and text halves, whose decimal/float/time.Parse code on a symbolic
//   fraction leaves solver queries undecided: those halves are bounded enumeration through the same engine)
//   H_C15_bin: binary Writer -> independent decoder (fields are the UTC fields, offset, fraction = coefficient and
//              exponent) -> Reader: Equal timestamp (instant, offset, unknown offset, precision, digits).
//   H_C15_len: timestampLen == len(appendTimestamp) on the same inputs.
//   H_C15_text: String() is a valid Ion timestamp literal (reference grammar incl. calendar) and ParseTimestamp
//              recovers an Equal timestamp.
// Outside: symbolic dates (calendar arithmetic of the standard library), fractions finer than nanoseconds in text.

type vCivil struct{ y, mo, d, h, mi, s int }

var vC15Dates = []vCivil{
	{1, 1, 1, 0, 0, 0},
	{9999, 12, 31, 23, 59, 59},
	{2000, 2, 29, 12, 30, 45},
	{1999, 2, 28, 23, 59, 59},
	{1970, 1, 1, 0, 0, 0},
	{2024, 12, 31, 0, 0, 1},
	{1900, 3, 1, 0, 0, 0},
}

var vC15Offsets = []int{330, -480, 1439, -1439, 1, 64, -127} // minutes (64 and 127: the one- / two-byte boundary of the offset VarInt)

// fraction bases: around every byte boundary of the coefficient (sign-bit byte spill at 128, 32768, 8388608) and the ends
var vC15Fracs = []int{0, 120, 250, 32760, 65530, 8388600, 16777210, 99999990, 999999984}

func vPow10i(k int) int {
	r := 1
	for i := 0; i < k; i++ {
		r *= 10
	}
	return r
}

// vC15Pick builds a Timestamp: concrete civil UTC instant from the table, symbolic nanosecond / digits / precision /
// offset kind. Returns the UTC civil fields and the offset in minutes for the reference check.
func vC15Pick() (ts Timestamp, utc vCivil, off int, ns int, digits int) {
	utc = vC15Dates[vnondetInt(0, len(vC15Dates)-1)]
	prec := TimestampPrecision(vnondetInt(int(TimestampPrecisionYear), int(TimestampPrecisionNanosecond)))
	kind := TimezoneKind(vnondetInt(int(TimezoneUnspecified), int(TimezoneLocal)))
	loc := time.UTC
	if prec <= TimestampPrecisionDay {
		kind = TimezoneUnspecified
	}
	if kind == TimezoneLocal {
		off = vC15Offsets[vnondetInt(0, len(vC15Offsets)-1)]
		loc = time.FixedZone("fixed", off*60)
	}
	if prec == TimestampPrecisionNanosecond {
		digits = vnondetInt(1, 9) // zero fraction digits is the Second precision
		// fraction = base + x with base from a table of byte-boundary values and x a symbolic 4-bit value (a fully
		// symbolic 30-bit fraction leaves the division chains of TruncatedNanoseconds / time.Format undecided)
		base := vC15Fracs[vnondetInt(0, len(vC15Fracs)-1)]
		frac := base
		if vparam("symx", 1) == 1 {
			frac += int(vnondetU8() & 0x0F)
		} else {
			frac += vnondetInt(0, 1) * 7 // concrete variant (Reader / text halves): base or base+7
		}
		vassume(frac < vPow10i(digits))
		ns = frac * vPow10i(9-digits)
	}
	// coarser precisions carry no finer fields
	c := utc
	if prec <= TimestampPrecisionYear {
		c.mo = 1
	}
	if prec <= TimestampPrecisionMonth {
		c.d = 1
	}
	if prec <= TimestampPrecisionDay {
		c.h, c.mi = 0, 0
	}
	if prec <= TimestampPrecisionMinute {
		c.s = 0
	}
	utc = c
	t := time.Date(c.y, time.Month(c.mo), c.d, c.h, c.mi, c.s, ns, time.UTC).In(loc)
	// local dates outside year 1..9999 are not Ion timestamps
	if kind == TimezoneLocal {
		vassume(t.Year() >= 1 && t.Year() <= 9999)
	}
	ts = NewTimestampWithFractionalSeconds(t, prec, kind, uint8(digits))
	return
}

func H_C15_bin() {
	ts, utc, off, ns, digits := vC15Pick()
	out := &vSink{failAt: -1}
	w := NewBinaryWriter(out)
	vassert(w.WriteTimestamp(ts) == nil, "WriteTimestamp succeeds")
	vassert(w.Finish() == nil, "Finish succeeds")
	enc := out.buf
	// independent decoding of the fields
	d, ok := refBinDecode(enc, nil)
	vassert(ok && !d.unsure, "timestamp encoding is well-formed with possible calendar fields")
	us := d.user()
	vassert(len(us) == 1 && us[0].typ == TimestampType && !us[0].null, "one timestamp value")
	f := us[0].ts
	vassert(f.prec == int(ts.precision) || (ts.precision == TimestampPrecisionNanosecond && f.prec == 5), "fields present match the precision")
	vassert(int(f.year) == utc.y && int(f.month) == utc.mo && int(f.day) == utc.d, "date fields are the UTC date")
	if ts.precision >= TimestampPrecisionMinute {
		vassert(int(f.hour) == utc.h && int(f.minute) == utc.mi && int(f.second) == utc.s, "time fields are the UTC time")
		vassert(f.offKnown == (ts.kind != TimezoneUnspecified) && int(f.offMin) == off, "offset field (minutes; unknown as negative zero)")
	}
	if ts.precision == TimestampPrecisionNanosecond && digits > 0 {
		vassert(f.hasFrac && f.fracExp == -int64(digits), "fraction exponent is minus the digit count")
		mag, fits := refUint(f.fracMag)
		vassert(fits && !f.fracNeg && int(mag) == ns/vPow10i(9-digits), "fraction coefficient is the nanoseconds cut to the declared digits")
		vcover("frac")
	}
	if vparam("half", 0) == 1 {
		vcover("end")
		return
	}
	// the real Reader
	r := NewReaderBytes(enc)
	vassert(r.Next() && r.Type() == TimestampType, "a timestamp is read back")
	got, err := r.TimestampValue()
	vassert(err == nil && got != nil, "TimestampValue succeeds")
	vassert(got.Equal(ts), "instant, offset, unknown-offset flag, precision and fraction digits survive the binary round trip")
	vassert(!r.Next() && r.Err() == nil, "nothing else in the stream")
	vobserve("len", uint64(len(enc)))
	vcover("end")
}

func H_C15_len() {
	ts, _, off, _, _ := vC15Pick()
	utcTs := ts
	utcTs.dateTime = ts.dateTime.In(time.UTC)
	n := timestampLen(off, utcTs)
	b := appendTimestamp(nil, off, utcTs)
	vassert(n == uint64(len(b)), "timestampLen == len(appendTimestamp)")
	vcover("end")
}

func H_C15_text() {
	ts, _, _, _, _ := vC15Pick()
	s := ts.String()
	evs, ok, unsure := refTextParse([]byte(s))
	vassert(ok, "String() is a valid Ion timestamp literal")
	vassert(unsure || (len(evs) == 1 && evs[0].typ == TimestampType), "and denotes one timestamp")
	got, err := ParseTimestamp(s)
	vassert(err == nil, "ParseTimestamp accepts the formatted timestamp")
	vassert(got.Equal(ts), "instant, offset, unknown-offset flag, precision and fraction digits survive formatting and parsing")
	vobserve("len", uint64(len(s)))
	vcover("end")
}

// H_C15_reject: binary timestamps whose calendar fields are chosen by solver variables from ranges that straddle
// the legal limits (month 0..13, day 0..32, hour 0..25, minute / second 0..61, offset +-1441 minutes, year 0), one
// or two fields varying at a time around a base date in a leap or a non-leap year, with date-only or time
// precision. The independent decoder's calendar check says whether the encoding is legal; the Reader must reject
// exactly the impossible ones (and accept the rest with the same fields). Field values are forked (concrete on
// each path): the standard library's calendar arithmetic is not decided symbolically.
func H_C15_reject() {
	years := []int{2021, 2020, 1900, 2000, 1, 9999, 0}
	year := years[vnondetInt(0, len(years)-1)]
	month, day, hour, minute, second := 2, 28, 10, 30, 30
	off := 0
	which := vnondetInt(0, 5)
	switch which {
	case 0:
		month = vnondetInt(0, 13)
		day = []int{1, 28, 29, 30, 31, 32}[vnondetInt(0, 5)]
	case 1:
		month = []int{1, 2, 4, 12}[vnondetInt(0, 3)]
		day = vnondetInt(0, 32)
	case 2:
		hour = vnondetInt(22, 25)
	case 3:
		minute = vnondetInt(58, 61)
	case 4:
		second = vnondetInt(58, 61)
	default:
		off = []int{-1441, -1440, -1439, -1, 1, 1439, 1440, 1441}[vnondetInt(0, 7)]
	}
	prec := vnondetInt(1, 5) // year, month, day, minute, second
	var body []byte
	if off == 0 {
		body = []byte{0x80}
	} else {
		body = appendVarIntRef(nil, int64(off))
	}
	body = vCat(body, appendVarUintRef(nil, uint64(year)))
	if prec >= 2 {
		body = append(body, 0x80|byte(month))
	}
	if prec >= 3 {
		body = append(body, 0x80|byte(day))
	}
	if prec >= 4 {
		body = append(body, 0x80|byte(hour), 0x80|byte(minute))
	}
	if prec >= 5 {
		body = append(body, 0x80|byte(second))
	}
	doc := vCat(vBVM, vTLV(0x60, body...), []byte{0x20})
	d, ok := refBinDecode(doc, nil)
	vassume(!d.unsure)
	r := NewReaderBytes(doc)
	var evs []vEv
	stepErr := vTraverse(r, 0, 4, false, &evs)
	if !ok {
		rejected := r.Err() != nil || stepErr || (len(evs) > 0 && evs[0].accErr)
		switch {
		case year == 0:
			vassert(rejected, "a binary timestamp with year 0 is rejected")
		case which <= 1:
			vassert(rejected, "a binary timestamp with an impossible month or day is rejected")
		case which == 2:
			vassert(rejected, "a binary timestamp with hour 24 or more is rejected")
		case which == 3:
			vassert(rejected, "a binary timestamp with minute 60 or more is rejected")
		case which == 4:
			vassert(rejected, "a binary timestamp with second 60 or more is rejected")
		default:
			vassert(rejected, "a binary timestamp with an offset of 24 hours or more is rejected")
		}
		vcover("rejected")
	} else {
		vassert(r.Err() == nil && !stepErr && len(evs) == 2 && !evs[0].accErr, "a legal binary timestamp is accepted")
		ts := evs[0].ts
		u := ts.dateTime.UTC()
		f := d.user()[0].ts
		vassert(u.Year() == int(f.year) && int(u.Month()) == int(f.month) && u.Day() == int(f.day), "date fields are read as encoded")
		if prec >= 4 {
			vassert(u.Hour() == int(f.hour) && u.Minute() == int(f.minute) && u.Second() == int(f.second), "time fields are read as encoded")
		}
		vcover("accepted")
	}
	vcover("end")
}

// reference VarUInt / VarInt encoders (specification: 7 bits per byte, stop bit on the last; sign in bit 6 of the first)
func appendVarUintRef(b []byte, v uint64) []byte {
	var tmp []byte
	for {
		tmp = append([]byte{byte(v & 0x7F)}, tmp...)
		v >>= 7
		if v == 0 {
			break
		}
	}
	tmp[len(tmp)-1] |= 0x80
	return append(b, tmp...)
}

func appendVarIntRef(b []byte, v int64) []byte {
	neg := v < 0
	m := uint64(v)
	if neg {
		m = uint64(-v)
	}
	var tmp []byte
	for {
		tmp = append([]byte{byte(m & 0x7F)}, tmp...)
		m >>= 7
		if m == 0 {
			break
		}
	}
	if tmp[0]&0x40 != 0 {
		tmp = append([]byte{0}, tmp...)
	}
	if neg {
		tmp[0] |= 0x40
	}
	tmp[len(tmp)-1] |= 0x80
	return append(b, tmp...)
}
