package ion

import "math/big"

// C01 / C04, text and pretty modes: one or two values of a chosen shape (param shape) with symbolic content are
// written through the real text Writer (param pretty) and finished. C04: the output parses under the specification-
// derived text parser refTextParse, which recovers exactly the values written. C01: the real Reader reads them back.
// Shapes: 0 int64, 1 uint64, 2 bool, 3 string of k symbolic bytes (any valid UTF-8, control characters, quotes,
// backslashes), 4 blob / clob of k symbolic bytes, 5 typed null, 6 list of two ints, 7 struct with a field name of k
// symbolic bytes, 8 int with an annotation of k symbolic bytes, 9 symbol value of k symbolic bytes (by token),
// 10 sexp(list(int) symbol) nesting, 11 decimal (symbolic small coefficient, exponent, negative zero), 12 two
// top-level values (string then symbol: separators), 13 symbol by WriteSymbolFromString (text not of the form $n),
// 14 big integer beyond int64, 15 annotated first value written by a text Writer that declares a shared-table import.
// Outside: floats and timestamps in text (strconv.FormatFloat / time.Format on symbolic values).

type vExp struct {
	depth    int
	typ      Type
	null     bool
	b        bool
	i        int64
	isU      bool
	u        uint64
	s        string
	bs       []byte
	sym      string
	isSym    bool
	hasField bool
	field    string
	ann      []string
	dec      *Decimal
	bigv     *big.Int
}

func vExpMatchesRef(x vExp, e tEv) bool {
	if e.depth != x.depth || e.typ != x.typ || e.null != x.null || e.hasField != x.hasField || len(e.ann) != len(x.ann) {
		return false
	}
	if x.hasField && !(e.field.hasText && e.field.text == x.field) {
		return false
	}
	for i := range x.ann {
		if !(e.ann[i].hasText && e.ann[i].text == x.ann[i]) {
			return false
		}
	}
	if x.null {
		return true
	}
	switch x.typ {
	case BoolType:
		return e.b == x.b
	case IntType:
		if x.bigv != nil {
			return true // beyond the reference's 18-digit value range: judged by the Reader half only
		}
		if x.isU {
			return e.ival >= 0 && uint64(e.ival) == x.u
		}
		return e.ival == x.i
	case StringType:
		return string(e.s) == x.s
	case ClobType, BlobType:
		return vSameBytes(e.s, x.bs)
	case SymbolType:
		return e.sym.hasText && e.sym.text == x.sym
	case DecimalType:
		coef, exp := x.dec.CoEx()
		if e.dexp != int64(exp) {
			return false
		}
		v := vDigitsValue(e.ddigits)
		if e.dneg {
			v = -v
		}
		if coef.Sign() == 0 {
			return v == 0 && e.dneg == x.dec.isNegZero
		}
		return coef.IsInt64() && coef.Int64() == v
	}
	return true
}

func vExpMatchesRefBin(x vExp, e rEv) bool {
	if e.depth != x.depth || e.typ != x.typ || e.null != x.null || e.hasField != x.hasField || len(e.ann) != len(x.ann) {
		return false
	}
	if x.hasField && !(e.field.known && e.field.text == x.field) {
		return false
	}
	for i := range x.ann {
		if !(e.ann[i].known && e.ann[i].text == x.ann[i]) {
			return false
		}
	}
	if x.null {
		return true
	}
	switch x.typ {
	case BoolType:
		return e.b == x.b
	case IntType:
		m := rStripZeros(e.mag)
		if x.bigv != nil {
			want := new(big.Int).SetBytes(m)
			if e.neg {
				want.Neg(want)
			}
			return want.Cmp(x.bigv) == 0
		}
		mag, fits := refUint(m)
		if !fits {
			return false
		}
		if x.isU {
			return !e.neg && mag == x.u
		}
		if x.i < 0 {
			return e.neg && mag == uint64(-x.i)
		}
		return !e.neg && mag == uint64(x.i)
	case StringType:
		return string(e.bs) == x.s
	case ClobType, BlobType:
		return vSameBytes(e.bs, x.bs)
	case SymbolType:
		return e.sym.known && e.sym.text == x.sym
	case DecimalType:
		coef, exp := x.dec.CoEx()
		if e.dexpBig || e.dexp != int64(exp) {
			return false
		}
		mag, fits := refUint(e.mag)
		if !fits {
			return false
		}
		if coef.Sign() == 0 {
			return mag == 0 && e.neg == x.dec.isNegZero
		}
		v := int64(mag)
		if e.neg {
			v = -v
		}
		return coef.IsInt64() && coef.Int64() == v
	}
	return true
}

func vExpMatchesReader(x vExp, g vEv) bool {
	if g.depth != x.depth || g.typ != x.typ || g.null != x.null || g.accErr || g.annErr || g.field.err {
		return false
	}
	if g.field.present != x.hasField || len(g.ann) != len(x.ann) {
		return false
	}
	if x.hasField && !(g.field.hasText && g.field.text == x.field) {
		return false
	}
	for i := range x.ann {
		if !(g.ann[i].hasText && g.ann[i].text == x.ann[i]) {
			return false
		}
	}
	if x.null {
		return true
	}
	switch x.typ {
	case BoolType:
		return g.b == x.b
	case IntType:
		if x.bigv != nil {
			return g.isBig && g.big.Cmp(x.bigv) == 0
		}
		if x.isU {
			if x.u>>63 == 0 {
				return !g.isBig && g.i == int64(x.u)
			}
			return g.isBig && g.big.IsUint64() && g.big.Uint64() == x.u
		}
		if g.isBig {
			return g.big.IsInt64() && g.big.Int64() == x.i
		}
		return g.i == x.i
	case StringType:
		return g.s == x.s
	case ClobType, BlobType:
		return vSameBytes(g.bs, x.bs)
	case SymbolType:
		return g.sym.hasText && g.sym.text == x.sym
	case DecimalType:
		if g.dec == nil {
			return false
		}
		c1, e1 := x.dec.CoEx()
		c2, e2 := g.dec.CoEx()
		return e1 == e2 && c1.Cmp(c2) == 0 && x.dec.isNegZero == g.dec.isNegZero
	}
	return true
}

func vTok(s string) SymbolToken { return SymbolToken{Text: &s, LocalSID: SymbolIDUnknown} }

func H_C01_text() {
	shape := vparam("shape", 0)
	k := vparam("k", 2)
	pretty := vparam("pretty", 0) == 1
	out := &vSink{failAt: -1}
	var w Writer
	var shared []SharedSymbolTable
	if shape == 15 {
		shared = []SharedSymbolTable{NewSharedSymbolTable("t1", 1, []string{"a", "b"})}
	}
	binary := vparam("binary", 0) == 1 // the same shapes through the binary Writer (decoded by refBinDecode)
	if binary {
		w = NewBinaryWriter(out, shared...)
	} else if pretty {
		w = NewTextWriterOpts(out, TextWriterPretty, shared...)
	} else {
		w = NewTextWriter(out, shared...)
	}
	var want []vExp
	okw := true
	chk := func(err error) {
		if err != nil {
			okw = false
		}
	}
	utf8Text := func() string {
		bs := vnondetBytes(vnondetInt(0, k))
		vassume(refUTF8(bs))
		return string(bs)
	}
	switch shape {
	case 0:
		v := int64(vnondetU64())
		// bound: |v| < 10^m (param m) or one of the boundary values MinInt64 / MaxInt64: the decimal digits of a
		// full-width symbolic value make the solver's 64-bit multiplications undecided within the timeout (param bv=1,2: concrete boundary values)
		lim := int64(1)
		for i := 0; i < vparam("m", 6); i++ {
			lim *= 10
		}
		switch vparam("bv", 0) {
		case 1:
			v = -1 << 63
		case 2:
			v = 1<<63 - 1
		default:
			vassume(v > -lim && v < lim)
		}
		chk(w.WriteInt(v))
		want = []vExp{{typ: IntType, i: v}}
	case 1:
		v := vnondetU64()
		lim := uint64(1)
		for i := 0; i < vparam("m", 6); i++ {
			lim *= 10
		}
		switch vparam("bv", 0) {
		case 1:
			v = 1 << 63
		case 2:
			v = 1<<64 - 1
		default:
			vassume(v < lim)
		}
		chk(w.WriteUint(v))
		want = []vExp{{typ: IntType, isU: true, u: v}}
	case 2:
		v := vnondetBool()
		chk(w.WriteBool(v))
		want = []vExp{{typ: BoolType, b: v}}
	case 3:
		s := utf8Text()
		chk(w.WriteString(s))
		want = []vExp{{typ: StringType, s: s}}
	case 4:
		bs := vnondetBytes(vnondetInt(0, k))
		if vnondetBool() {
			chk(w.WriteClob(bs))
			want = []vExp{{typ: ClobType, bs: bs}}
		} else {
			chk(w.WriteBlob(bs))
			want = []vExp{{typ: BlobType, bs: bs}}
		}
	case 5:
		t := Type(vnondetInt(int(NullType), int(StructType)))
		chk(w.WriteNullType(t))
		want = []vExp{{typ: t, null: true}}
	case 6:
		a, b := int64(int8(vnondetU8())), int64(int8(vnondetU8()))
		chk(w.BeginList())
		chk(w.WriteInt(a))
		chk(w.WriteInt(b))
		chk(w.EndList())
		want = []vExp{{typ: ListType}, {depth: 1, typ: IntType, i: a}, {depth: 1, typ: IntType, i: b}}
	case 7:
		f := utf8Text()
		chk(w.BeginStruct())
		chk(w.FieldName(vTok(f)))
		chk(w.WriteInt(5))
		chk(w.FieldName(vTok("b")))
		chk(w.WriteBool(true))
		chk(w.EndStruct())
		want = []vExp{{typ: StructType}, {depth: 1, typ: IntType, i: 5, hasField: true, field: f}, {depth: 1, typ: BoolType, b: true, hasField: true, field: "b"}}
	case 8:
		a := utf8Text()
		chk(w.Annotation(vTok(a)))
		chk(w.Annotation(vTok("z")))
		chk(w.WriteInt(5))
		want = []vExp{{typ: IntType, i: 5, ann: []string{a, "z"}}}
	case 9:
		s := utf8Text()
		chk(w.WriteSymbol(vTok(s)))
		want = []vExp{{typ: SymbolType, sym: s}}
	case 10:
		s := utf8Text()
		chk(w.BeginSexp())
		chk(w.BeginList())
		chk(w.WriteInt(1))
		chk(w.EndList())
		chk(w.WriteSymbol(vTok(s)))
		chk(w.WriteSymbol(vTok("+")))
		chk(w.EndSexp())
		want = []vExp{{typ: SexpType}, {depth: 1, typ: ListType}, {depth: 2, typ: IntType, i: 1}, {depth: 1, typ: SymbolType, sym: s}, {depth: 1, typ: SymbolType, sym: "+"}}
	case 11:
		n := int64(int8(vnondetU8()))
		e := int32(vnondetInt(-4, 4))
		nz := vnondetBool()
		if nz {
			vassume(n == 0)
		}
		d := NewDecimal(big.NewInt(n), e, nz)
		chk(w.WriteDecimal(d))
		want = []vExp{{typ: DecimalType, dec: d}}
	case 12:
		s := utf8Text()
		y := utf8Text()
		chk(w.WriteString(s))
		chk(w.WriteSymbol(vTok(y)))
		chk(w.WriteInt(1))
		want = []vExp{{typ: StringType, s: s}, {typ: SymbolType, sym: y}, {typ: IntType, i: 1}}
	case 13:
		s := utf8Text()
		_, looksLikeID := symbolIdentifierRef(s)
		vassume(!looksLikeID) // WriteSymbolFromString documents "$n" as a symbol ID reference, not text
		chk(w.WriteSymbolFromString(s))
		want = []vExp{{typ: SymbolType, sym: s}}
	case 17:
		// '$' followed by two arbitrary characters out of signs, digits and a letter: only '$' + digits is an ID reference
		b := vnondetBytes(2)
		for _, c := range b {
			vassume(c == '+' || c == '-' || c == '0' || c == '7' || c == '9' || c == 'a' || c == '_')
		}
		s := "$" + string(b)
		_, looksLikeID := symbolIdentifierRef(s)
		vassume(!looksLikeID)
		chk(w.WriteSymbolFromString(s))
		want = []vExp{{typ: SymbolType, sym: s}}
	case 15:
		// a text Writer with a shared-table import writes its symbol table ahead of the first value
		a := utf8Text()
		chk(w.Annotation(vTok(a)))
		chk(w.WriteInt(5))
		chk(w.WriteSymbol(vTok("b")))
		want = []vExp{{typ: IntType, i: 5, ann: []string{a}}, {typ: SymbolType, sym: "b"}}
	case 16:
		// an annotated lob whose length sits on the length-encoding boundaries (13/14, 127/128)
		n := []int{13, 14, 127, 128, 130}[vnondetInt(0, 4)]
		bs := make([]byte, n)
		for i := range bs {
			bs[i] = byte(i)
		}
		bs[0] = vnondetU8()
		a := utf8Text()
		chk(w.Annotation(vTok(a)))
		chk(w.WriteBlob(bs))
		chk(w.WriteInt(3))
		want = []vExp{{typ: BlobType, bs: bs, ann: []string{a}}, {typ: IntType, i: 3}}
	default:
		v := new(big.Int).SetBytes([]byte{0x01, 0x23, 0x45, 0x67, 0x89, 0xAB, 0xCD, 0xEF, 0x01, 0x80}) // a concrete 73-bit value (symbolic big values: binary mode, C13)
		if vnondetBool() {
			v.Neg(v)
		}
		chk(w.WriteBigInt(v))
		want = []vExp{{typ: IntType, bigv: v}}
	}
	vassert(okw, "every write succeeds")
	vassert(w.Finish() == nil, "Finish succeeds")
	enc := out.buf

	if binary {
		// C04: well-formed, self-contained binary under the independent decoder, which recovers the values written
		var cat []rShared
		if shape == 15 {
			cat = []rShared{{"t1", 1, []string{"a", "b"}}}
		}
		d, ok := refBinDecode(enc, cat)
		vassert(ok, "binary output is well-formed under the independent decoder")
		vassert(!d.undef, "every symbol ID used is defined by the stream")
		if !d.unsure {
			us := d.user()
			vassert(len(us) == len(want), "the independent decoder finds exactly the values written")
			for i := range want {
				vassert(vExpMatchesRefBin(want[i], us[i]), "the independent decoder recovers each written value")
			}
			vcover("ref")
		}
		r := NewReaderCat(&vChunkSrc{data: enc, failAt: -1}, NewCatalog(shared...))
		var got []vEv
		stepErr := vTraverse(r, 0, 8, false, &got)
		vassert(!stepErr && r.Err() == nil, "written binary is read without error")
		vassert(len(got) == len(want), "the same number of values is read back")
		for i := range want {
			vassert(vExpMatchesReader(want[i], got[i]), "each value survives the binary round trip")
		}
		vobserve("len", uint64(len(enc)))
		vcover("end")
		return
	}

	// C04: the output is Ion text under the independent parser, which recovers the values written
	evs, ok, unsure := refTextParse(enc)
	vassert(ok, "text output parses under the Ion text grammar")
	if !unsure {
		vassert(len(evs) == len(want), "the independent parser finds exactly the values written")
		for i := range want {
			vassert(vExpMatchesRef(want[i], evs[i]), "the independent parser recovers each written value")
		}
		vcover("ref")
	}

	// C01: the real Reader reads back what was written
	r := NewReaderBytes(enc)
	var got []vEv
	stepErr := vTraverse(r, 0, 8, false, &got)
	vassert(!stepErr && r.Err() == nil, "written text is read without error")
	vassert(len(got) == len(want), "the same number of values is read back")
	for i := range want {
		vassert(vExpMatchesReader(want[i], got[i]), "each value survives the text round trip")
	}
	vobserve("len", uint64(len(enc)))
	vcover("end")
}

// symbolIdentifierRef: is s of the form $<digits>? (reference for the documented meaning of "$n" strings)
func symbolIdentifierRef(s string) (uint64, bool) {
	if len(s) < 2 || s[0] != '$' {
		return 0, false
	}
	var v uint64
	for i := 1; i < len(s); i++ {
		if s[i] < '0' || s[i] > '9' {
			return 0, false
		}
		v = v*10 + uint64(s[i]-'0')
	}
	return v, true
}
