#!/bin/sh
# dev aid: native differential run of refTextParse vs ion-go (see reftext_diff_test.go)
cd /repo
ov=$(mktemp /tmp/ovXXXX.json)
python3 - > $ov <<PY
import json,glob
rep={}
for f in glob.glob('/verif/harness/ion/*.go'):
    rep['/repo/ion/zz_verif_'+f.split('/')[-1]]=f
rep['/repo/ion/zz_verif_reftext_diff_test.go']='/verif/tools/dev/reftext_diff_test.go'
import os
os.makedirs('/tmp/devrt',exist_ok=True)
for t in ('rt.go','rt_test.go'):
    s=open('/verif/harness/rt/'+t+'.tmpl').read().replace('PKGNAME','ion',1)
    open('/tmp/devrt/'+t,'w').write(s)
    rep['/repo/ion/zz_verif_'+t]='/tmp/devrt/'+t
open('/tmp/devrt/reg_test.go','w').write('package ion\nvar vharnesses = map[string]func(){}\n')
rep['/repo/ion/zz_verif_reg_test.go']='/tmp/devrt/reg_test.go'
print(json.dumps({"Replace":rep}))
PY
GOFLAGS=-mod=mod GOPROXY=off go test -vet=off -count=1 -overlay $ov -v -run TestVerifRefTextDiff ./ion/ 2>&1 | head -${LINES_MAX:-70}
rm -f $ov
