package ion

// C16 (partial): Marshal then Unmarshal returns an equal Go value, in text and in binary, for a FIXED TABLE of Go types
// with symbolic values (the property quantifies over all Go types assembled from the supported kinds: that quantifier
// is outside; the table covers each supported kind at least once). reflect is environment (reflect-lite).

import (
	"math/big"
	"time"
)

type vC16Inner struct {
	X int16
	Y string `ion:"y,omitempty"`
}

type vC16Rec struct {
	A int8
	B string `ion:"b"`
	C *int16
	D []byte
	E bool `ion:",omitempty"`
	F uint32
	G vC16Inner
	H []int8
	I [2]uint8
	vC16Emb16
	hidden int
	S  string      `ion:"s,symbol"`
	OP *int8       `ion:",omitempty"`
	OI interface{} `ion:",omitempty"`
}

type VC16Base struct {
	ID   int8
	Name string
}

type vC16EmbPtr struct {
	*VC16Base
	Tag string
}

// field names that differ only in letter case: an exact match must win over the case-insensitive fallback
type vC16Case struct {
	Lo  int8   `ion:"key"`
	Up  int8   `ion:"KEY"`
	N1  string `ion:"nm"`
	N2  string `ion:"Nm"`
	Mid bool   `ion:"kEy"`
}

type vC16Emb16 struct {
	P uint16
}

func vC16Str(k int) string {
	b := vnondetBytes(vnondetInt(0, k))
	vassume(refUTF8(b))
	return string(b)
}

func vC16Marshal(v interface{}, mode int) ([]byte, error) {
	switch mode {
	case 0:
		return MarshalBinary(v)
	case 1:
		return MarshalText(v)
	default:
		// a fixed local symbol table that declares every field name of the table types
		return MarshalBinaryLST(v, NewLocalSymbolTable(nil, []string{"A", "b", "C", "D", "E", "F", "G", "H", "I", "P", "s", "X", "y", "Dec", "Ts", "N", "PD", "k", "F32", "F64", "T", "M", "PS", "Sx", "Cl", "V", "a", "OP", "OI", "ID", "Name", "Tag", "key", "KEY", "nm", "Nm", "kEy"}))
	}
}

func H_C16_rt() {
	mode := vparam("mode", 0)
	switch vparam("type", 0) {
	case 0: // a record struct covering ints, strings, pointers, bytes, bools, nested / embedded structs, slices, arrays
		// one group of fields is symbolic per run (param grp), the others hold fixed non-zero values, so that the case
		// splits of the groups add up instead of multiplying
		grp := vparam("grp", 0)
		c7 := int16(-300)
		in := vC16Rec{A: -5, B: "b\u00e9", C: &c7, D: []byte{1, 0xFF}, E: true, F: 70000, H: []int8{-1, 2}, I: [2]uint8{3, 200}, S: "name"}
		in.G = vC16Inner{X: 9, Y: "y"}
		in.P = 40000
		switch grp {
		case 0: // integers of every width, pointer nil / non-nil
			in.A = int8(vnondetU8())
			if vnondetBool() {
				c := int16(vnondetU16())
				in.C = &c
			} else {
				in.C = nil
			}
			in.F = vnondetU32()
			in.P = vnondetU16()
			if mode == 1 {
				// text: decimal digits of symbolic integers are expensive; three digits each
				vassume(in.F < 1000 && in.P < 1000 && (in.C == nil || (*in.C > -1000 && *in.C < 1000)))
			}
		case 1: // strings, bytes, bools, omitempty
			if mode == 1 {
				// text: one of the three is symbolic per path (escapes and base64 multiply the paths), one byte each
				switch vnondetInt(0, 2) {
				case 0:
					in.B = vC16Str(1)
				case 1:
					in.G.Y = vC16Str(1)
				default:
					if vnondetBool() {
						in.D = vnondetBytes(vnondetInt(0, 1))
					} else {
						in.D = nil
					}
				}
			} else {
				in.B = vC16Str(2)
				if vnondetBool() {
					in.D = vnondetBytes(vnondetInt(0, 2))
				} else {
					in.D = nil
				}
				in.G.Y = vC16Str(1)
			}
			in.E = vnondetBool()
		case 3: // omitempty on pointer and interface fields
			if vnondetBool() {
				op := int8(vnondetU8()) // incl. a non-nil pointer to 0: omitempty drops nil pointers only
				if mode == 1 {
					vassume(op > -100 && op < 100)
				}
				in.OP = &op
			}
			switch vnondetInt(0, 2) {
			case 1:
				in.OI = vnondetBool()
			case 2:
				in.OI = ""
			}
		default: // nested struct, slice (nil / empty / filled), array
			in.G.X = int16(vnondetU16())
			if mode == 1 {
				vassume(in.G.X > -1000 && in.G.X < 1000)
			}
			if vnondetBool() {
				n := vnondetInt(0, 2)
				if mode == 1 {
					vassume(n <= 1)
				}
				in.H = make([]int8, n)
				for i := range in.H {
					in.H[i] = int8(vnondetU8())
				}
			} else {
				in.H = nil
			}
			in.I = [2]uint8{vnondetU8(), 7}
			if mode != 1 {
				in.I[1] = vnondetU8()
			}
		}
		bs, err := vC16Marshal(in, mode)
		vassert(err == nil, "a value of supported kinds marshals")
		var out vC16Rec
		err = Unmarshal(bs, &out)
		vassert(err == nil, "what Marshal wrote unmarshals into the same type")
		vassert(out.A == in.A && out.B == in.B && out.E == in.E && out.F == in.F && out.P == in.P && out.S == in.S, "scalar fields are equal")
		vassert((out.C == nil) == (in.C == nil) && (in.C == nil || *out.C == *in.C), "pointer fields are equal")
		vassert((out.OP == nil) == (in.OP == nil) && (in.OP == nil || *out.OP == *in.OP), "omitempty pointer fields are equal (a pointer to an empty value is not nil)")
		switch x := in.OI.(type) {
		case nil:
			vassert(out.OI == nil, "a nil omitempty interface stays nil")
		case bool:
			y, ok := out.OI.(bool)
			vassert(ok && y == x, "an omitempty interface holding a bool is equal")
		case string:
			y, ok := out.OI.(string)
			vassert(ok && y == x, "an omitempty interface holding a string is equal")
		}
		vassert(vSameBytes(out.D, in.D), "byte slices are equal")
		vassert(out.G == in.G, "nested structs are equal")
		vassert(len(out.H) == len(in.H), "slices have equal length")
		vassert((out.H == nil) == (in.H == nil), "a nil slice stays nil and an empty slice stays empty")
		for i := range in.H {
			vassert(out.H[i] == in.H[i], "slice elements are equal")
		}
		vassert(out.I == in.I, "arrays are equal")
		if mode == 1 {
			bs2, err := MarshalText(in)
			vassert(err == nil && vSameBytes(bs, bs2), "MarshalText is deterministic")
		}
	case 1: // map[string]int16
		in := map[string]int16{}
		n := vnondetInt(0, vparam("n", 2))
		for i := 0; i < n; i++ {
			x := int16(vnondetU16())
			if mode == 1 {
				vassume(x > -100 && x < 100)
			}
			if mode == 2 {
				in["k"] = x // the fixed table of the lst mode declares this key only
			} else {
				in[vC16Str(1)] = x
			}
		}
		bs, err := vC16Marshal(in, mode)
		vassert(err == nil, "a map marshals")
		var out map[string]int16
		err = Unmarshal(bs, &out)
		vassert(err == nil, "what Marshal wrote unmarshals into the same type")
		vassert(len(out) == len(in), "maps have equal size")
		for k, v := range in {
			w, ok := out[k]
			vassert(ok && w == v, "map entries are equal")
		}
	case 3: // Decimal, Timestamp, big.Int as values, as struct fields and behind pointers
		// concrete boundary values, symbolic choices (the decimal / timestamp / integer codecs are covered with
		// symbolic values by C14, C15, C01, C13; here the kinds and the way they are reached matter)
		d2 := MustParseDecimal([]string{"0.", "-0.", "1.5", "-12345.678", "1d10", "7d-20"}[vnondetInt(0, 5)])
		dec := MustParseDecimal([]string{"0d3", "42."}[vnondetInt(0, 1)])
		ts := MustParseTimestamp([]string{"2001T", "2000-02-29T", "1999-12-31T23:59:59.999Z", "2020-01-01T00:00:00+05:30", "2010-06-15T12:30-00:00"}[vnondetInt(0, 4)])
		type rec struct {
			Dec Decimal
			Ts  Timestamp
			N   big.Int
			PD  *Decimal
		}
		in := rec{Dec: *d2, Ts: ts, PD: dec}
		in.N.SetString([]string{"0", "-1", "18446744073709551616"}[vnondetInt(0, 2)], 10)
		var bs []byte
		var err error
		byValue := vnondetBool()
		if byValue {
			bs, err = vC16Marshal(in, mode)
		} else {
			bs, err = vC16Marshal(&in, mode)
		}
		vassert(err == nil, "a struct of Decimal, Timestamp and big.Int fields marshals")
		var out rec
		err = Unmarshal(bs, &out)
		vassert(err == nil, "what Marshal wrote unmarshals into the same type")
		vassert(out.Dec.Equal(&in.Dec), "Decimal fields are equal")
		vassert(out.Ts.Equal(in.Ts), "Timestamp fields are equal")
		vassert(out.N.Cmp(&in.N) == 0, "big.Int fields are equal")
		vassert(out.PD != nil && out.PD.Equal(in.PD), "*Decimal fields are equal")
	case 4: // floats, time.Time, interface{}, map[string]bool, *string, sexp and clob hints
		type rec struct {
			F32 float32
			F64 float64
			T   time.Time
			I   interface{}
			M   map[string]bool
			PS  *string
			Sx  []string `ion:",sexp"`
			Cl  []byte   `ion:",clob"`
		}
		var in rec
		grp := vparam("grp", 0) // one group of fields varies per run, the others stay zero
		ik := 0
		switch grp {
		case 0:
			// concrete boundary floats, symbolic choice (symbolic float bits through the codecs: C13; formatting symbolic
			// floats as text is outside the engine: strconv.FormatFloat is evaluated natively on concrete values)
			in.F64 = []float64{0, 1.5, -2.25e-7, 1e300, 3.0e10, vf64frombits(0x7FF8000000000001), vf64frombits(0x7FF0000000000000), vf64frombits(0x8000000000000000)}[vnondetInt(0, 7)]
			in.F32 = []float32{0, 0.5, -3.5e10, 16777216, 3.4028234e38}[vnondetInt(0, 4)]
		case 1:
			in.T = []time.Time{time.Date(2020, 1, 2, 3, 4, 5, 6000, time.UTC), time.Date(1999, 12, 31, 23, 59, 59, 999999999, time.FixedZone("x", 90*60)), time.Date(2000, 2, 29, 0, 0, 0, 0, time.FixedZone("y", -8*3600))}[vnondetInt(0, 2)]
			ik = vnondetInt(0, 3)
			switch ik {
			case 1:
				in.I = vnondetBool()
			case 2:
				in.I = int(int8(vnondetU8()))
			case 3:
				in.I = vC16Str(1)
			}
		case 2:
			if vnondetBool() {
				in.M = map[string]bool{}
				if vnondetBool() {
					in.M["k"] = vnondetBool()
				}
			}
			if vnondetBool() {
				ps := vC16Str(1)
				in.PS = &ps
			}
		default:
			if vnondetBool() {
				in.Sx = []string{"a", vC16Str(1)}
			}
			if vnondetBool() {
				in.Cl = vnondetBytes(vnondetInt(0, 2))
			}
		}
		bs, err := vC16Marshal(in, mode)
		vassert(err == nil, "a value of supported kinds marshals")
		var out rec
		err = Unmarshal(bs, &out)
		vassert(err == nil, "what Marshal wrote unmarshals into the same type")
		vassert(out.F64 == in.F64 || (out.F64 != out.F64 && in.F64 != in.F64), "float64 fields are equal")
		vassert(out.F32 == in.F32 || (out.F32 != out.F32 && in.F32 != in.F32), "float32 fields are equal")
		vassert(out.T.Equal(in.T), "time.Time fields denote the same instant")
		switch ik {
		case 0:
			vassert(out.I == nil, "a nil interface stays nil")
		case 1:
			b, ok := out.I.(bool)
			vassert(ok && b == in.I.(bool), "a bool in an interface{} is equal")
		case 2:
			n, ok := out.I.(int)
			vassert(ok && n == in.I.(int), "an int in an interface{} is equal")
		default:
			x, ok := out.I.(string)
			vassert(ok && x == in.I.(string), "a string in an interface{} is equal")
		}
		vassert((out.M == nil) == (in.M == nil) && len(out.M) == len(in.M), "maps are equal (nil stays nil, empty stays empty)")
		if len(in.M) == 1 {
			vassert(out.M["k"] == in.M["k"], "map entries are equal")
		}
		vassert((out.PS == nil) == (in.PS == nil) && (in.PS == nil || *out.PS == *in.PS), "*string fields are equal")
		vassert((out.Sx == nil) == (in.Sx == nil) && len(out.Sx) == len(in.Sx), "sexp-hinted slices are equal")
		for i := range in.Sx {
			vassert(out.Sx[i] == in.Sx[i], "sexp-hinted slice elements are equal")
		}
		vassert((out.Cl == nil) == (in.Cl == nil) && vSameBytes(out.Cl, in.Cl), "clob-hinted byte slices are equal")
	case 5: // annotations tag
		in := vC17Wrap{V: int16(vnondetU16())}
		if mode == 1 {
			vassume(in.V > -1000 && in.V < 1000)
		}
		na := vnondetInt(0, 2)
		names := []string{"A", "b", "name"}
		for i := 0; i < na; i++ {
			in.A = append(in.A, NewSymbolTokenFromString(names[vnondetInt(0, 2)]))
		}
		bs, err := vC16Marshal(in, mode)
		vassert(err == nil, "an annotation wrapper marshals")
		var out vC17Wrap
		err = Unmarshal(bs, &out)
		vassert(err == nil, "what Marshal wrote unmarshals into the same type")
		vassert(out.V == in.V && len(out.A) == len(in.A), "value and number of annotations are equal")
		for i := range in.A {
			vassert(out.A[i].Text != nil && *out.A[i].Text == *in.A[i].Text, "annotations are equal")
		}
	case 6: // a struct that embeds a pointer to a struct
		var in vC16EmbPtr
		in.Tag = vC16Str(1)
		if vnondetBool() {
			in.VC16Base = &VC16Base{ID: int8(vnondetU8()), Name: "n"}
			if mode == 1 {
				vassume(in.ID > -100 && in.ID < 100)
			}
		}
		bs, err := vC16Marshal(in, mode)
		vassert(err == nil, "a struct with an embedded pointer marshals")
		var out vC16EmbPtr
		err = Unmarshal(bs, &out)
		vassert(err == nil, "what Marshal wrote unmarshals into the same type")
		vassert(out.Tag == in.Tag, "fields are equal")
		vassert((out.VC16Base == nil) == (in.VC16Base == nil), "a nil embedded pointer stays nil, a non-nil one is allocated")
		if in.VC16Base != nil {
			vassert(out.ID == in.ID && out.Name == in.Name, "promoted fields of the embedded pointer are equal")
		}
	case 7: // field names that differ only in letter case
		in := vC16Case{Lo: int8(vnondetU8()), Up: int8(vnondetU8()), N1: "p", N2: "q", Mid: vnondetBool()}
		if mode == 1 {
			// text: one decimal digit per integer, concrete strings (escapes and digits multiply the paths)
			vassume(in.Lo > -10 && in.Lo < 10 && in.Up > -10 && in.Up < 10)
		} else {
			in.N1, in.N2 = vC16Str(1), vC16Str(1)
		}
		bs, err := vC16Marshal(in, mode)
		vassert(err == nil, "a struct with case-colliding field names marshals")
		var out vC16Case
		err = Unmarshal(bs, &out)
		vassert(err == nil, "what Marshal wrote unmarshals into the same type")
		vassert(out.Lo == in.Lo && out.Up == in.Up && out.Mid == in.Mid, "each field gets its own value back (exact name wins over case folding)")
		vassert(out.N1 == in.N1 && out.N2 == in.N2, "string fields with case-colliding names are equal")
	default: // big.Int
		// concrete boundary values, symbolic choice (the integer codecs themselves are covered with symbolic values by C01/C13)
		in, _ := new(big.Int).SetString([]string{"0", "1", "-1", "255", "-256", "9223372036854775807", "-9223372036854775808", "18446744073709551616", "-1000000000000000000000000000000"}[vnondetInt(0, 8)], 10)
		bs, err := vC16Marshal(in, mode)
		vassert(err == nil, "a big.Int marshals")
		var out big.Int
		err = Unmarshal(bs, &out)
		vassert(err == nil, "what Marshal wrote unmarshals into the same type")
		vassert(out.Cmp(in) == 0, "the big.Int is equal")
	}
	vcover("end")
}
