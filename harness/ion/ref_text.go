package ion

// refTextParse: a parser for Ion 1.0 text written from the specification (amzn.github.io/ion-docs: text grammar
// IonText.g4, "Ion text encoding" of each type) and sharing no code with ion-go. It turns a byte string into a flat
// list of events (type, nullness, field name, annotations, payload). ok=false <=> the text is malformed.
// Corners in which the specification is silent or this reference is deliberately not sure set `unsure`; harnesses
// exclude such inputs from their claims (and say so). Deliberately simple: explicit loops, no library calls.
//
// Not judged here (unsure): symbol tables / version markers other than a plain leading $ion_1_0, symbol IDs above the
// system table, operator runs touching '/', '-' or '+' glued to other operator characters in front of a digit,
// integers of more than 18 decimal / 15 hex / 62 binary digits, float values (lexical check only), timestamp
// values (lexical and calendar check only), non-ASCII bytes outside strings.

type tSym struct {
	hasText bool
	text    string
	sid     uint64
}

type tEv struct {
	depth    int
	typ      Type
	null     bool
	hasField bool
	field    tSym
	ann      []tSym
	b        bool
	ival     int64 // int value (fits by construction, see unsure)
	dneg     bool  // decimal: sign
	ddigits  []byte
	dexp     int64
	sym      tSym
	s        []byte // string / clob / blob bytes
	fkind    int    // float: 0 finite (value not judged), 1 nan, 2 +inf, 3 -inf
}

type tParser struct {
	b      []byte
	pos    int
	evs    []tEv
	unsure bool
	bad    bool
}

func tIsWS(c byte) bool {
	return c == ' ' || c == '\t' || c == '\n' || c == '\r' || c == 0x0B || c == 0x0C
}
func tIsDigit(c byte) bool { return c >= '0' && c <= '9' }
func tIsHex(c byte) bool {
	return tIsDigit(c) || (c >= 'a' && c <= 'f') || (c >= 'A' && c <= 'F')
}
func tHexVal(c byte) uint32 {
	switch {
	case c >= 'a':
		return uint32(c-'a') + 10
	case c >= 'A':
		return uint32(c-'A') + 10
	}
	return uint32(c - '0')
}
func tIsIdStart(c byte) bool {
	return (c >= 'a' && c <= 'z') || (c >= 'A' && c <= 'Z') || c == '_' || c == '$'
}
func tIsIdPart(c byte) bool { return tIsIdStart(c) || tIsDigit(c) }
func tIsOp(c byte) bool {
	switch c {
	case '!', '#', '%', '&', '*', '+', '-', '.', '/', ';', '<', '=', '>', '?', '@', '^', '`', '|', '~':
		return true
	}
	return false
}

func (p *tParser) eof() bool { return p.pos >= len(p.b) }
func (p *tParser) peek() byte {
	if p.pos < len(p.b) {
		return p.b[p.pos]
	}
	return 0
}
func (p *tParser) at(i int) byte {
	if p.pos+i < len(p.b) {
		return p.b[p.pos+i]
	}
	return 0
}
func (p *tParser) has(i int) bool { return p.pos+i < len(p.b) }

// skipWS skips whitespace and comments. Returns false on an unterminated block comment.
func (p *tParser) skipWS() bool {
	for !p.eof() {
		c := p.peek()
		if tIsWS(c) {
			p.pos++
			continue
		}
		if c == '/' && p.has(1) && p.at(1) == '/' {
			p.pos += 2
			for !p.eof() && p.peek() != '\n' && p.peek() != '\r' {
				p.pos++
			}
			continue
		}
		if c == '/' && p.has(1) && p.at(1) == '*' {
			p.pos += 2
			closed := false
			for p.has(1) {
				if p.peek() == '*' && p.at(1) == '/' {
					p.pos += 2
					closed = true
					break
				}
				p.pos++
			}
			if !closed {
				return false
			}
			continue
		}
		break
	}
	return true
}

// atStop: is the parser at a character that may follow a number / timestamp / keyword?
func (p *tParser) atStop() bool {
	if p.eof() {
		return true
	}
	c := p.peek()
	switch c {
	case '{', '}', '[', ']', '(', ')', ',', '"', '\'':
		return true
	}
	if tIsWS(c) {
		return true
	}
	if c == '/' && p.has(1) && (p.at(1) == '/' || p.at(1) == '*') {
		return true
	}
	return false
}

func tAppendUTF8(out []byte, r uint32) []byte {
	switch {
	case r < 0x80:
		return append(out, byte(r))
	case r < 0x800:
		return append(out, 0xC0|byte(r>>6), 0x80|byte(r&0x3F))
	case r < 0x10000:
		return append(out, 0xE0|byte(r>>12), 0x80|byte((r>>6)&0x3F), 0x80|byte(r&0x3F))
	}
	return append(out, 0xF0|byte(r>>18), 0x80|byte((r>>12)&0x3F), 0x80|byte((r>>6)&0x3F), 0x80|byte(r&0x3F))
}

// escape parses the escape after a backslash. clob: only byte escapes are legal. Returns the bytes it denotes
// (none for a line continuation).
func (p *tParser) escape(out []byte, clob bool) ([]byte, bool) {
	if p.eof() {
		return out, false
	}
	c := p.peek()
	p.pos++
	hexN := 0
	switch c {
	case '0':
		return append(out, 0), true
	case 'a':
		return append(out, 7), true
	case 'b':
		return append(out, 8), true
	case 't':
		return append(out, 9), true
	case 'n':
		return append(out, 10), true
	case 'f':
		return append(out, 12), true
	case 'r':
		return append(out, 13), true
	case 'v':
		return append(out, 11), true
	case '?', '/', '\'', '"', '\\':
		return append(out, c), true
	case '\n':
		return out, true
	case '\r':
		if !p.eof() && p.peek() == '\n' {
			p.pos++
		}
		return out, true
	case 'x':
		hexN = 2
	case 'u':
		hexN = 4
	case 'U':
		hexN = 8
	default:
		return out, false
	}
	if clob && hexN != 2 {
		return out, false
	}
	var r uint32
	for i := 0; i < hexN; i++ {
		if p.eof() || !tIsHex(p.peek()) {
			return out, false
		}
		r = r<<4 | tHexVal(p.peek())
		p.pos++
	}
	if hexN == 2 {
		if clob {
			return append(out, byte(r)), true
		}
		return tAppendUTF8(out, r), true
	}
	if r > 0x10FFFF {
		return out, false
	}
	if r >= 0xD800 && r <= 0xDFFF {
		// surrogates: a high surrogate followed by an escaped low surrogate denotes one code point (\u only)
		if hexN == 4 && r <= 0xDBFF && p.has(5) && p.peek() == '\\' && p.at(1) == 'u' {
			var lo uint32
			okHex := true
			for i := 2; i < 6; i++ {
				if !tIsHex(p.at(i)) {
					okHex = false
				}
				lo = lo<<4 | tHexVal(p.at(i))
			}
			if okHex && lo >= 0xDC00 && lo <= 0xDFFF {
				p.pos += 6
				return tAppendUTF8(out, 0x10000+((r-0xD800)<<10)+(lo-0xDC00)), true
			}
		}
		p.unsure = true // a lone surrogate escape: the specification does not say
		return out, true
	}
	return tAppendUTF8(out, r), true
}

// quoted parses the body of "..." or '...' after the opening quote.
func (p *tParser) quoted(q byte, clob bool) ([]byte, bool) {
	var out []byte
	for {
		if p.eof() {
			return nil, false
		}
		c := p.peek()
		p.pos++
		switch {
		case c == q:
			if !clob && !refUTF8(out) {
				return nil, false
			}
			return out, true
		case c == '\\':
			var ok bool
			out, ok = p.escape(out, clob)
			if !ok {
				return nil, false
			}
		case c == '\n' || c == '\r':
			return nil, false
		case c < 0x20 && c != '\t' && c != 0x0B && c != 0x0C:
			return nil, false
		case clob && c >= 0x80:
			return nil, false
		default:
			out = append(out, c)
		}
	}
}

func (p *tParser) atTriple() bool {
	return p.has(2) && p.peek() == '\'' && p.at(1) == '\'' && p.at(2) == '\''
}

// longSegments parses one or more '''...''' segments (the parser is at the first '''), concatenated.
func (p *tParser) longSegments(clob bool) ([]byte, bool) {
	var out []byte
	for {
		p.pos += 3
		for {
			if p.eof() {
				return nil, false
			}
			if p.atTriple() {
				p.pos += 3
				break
			}
			c := p.peek()
			p.pos++
			switch {
			case c == '\\':
				var ok bool
				out, ok = p.escape(out, clob)
				if !ok {
					return nil, false
				}
			case c == '\r':
				if !p.eof() && p.peek() == '\n' {
					p.pos++
				}
				out = append(out, '\n')
			case c < 0x20 && !tIsWS(c):
				return nil, false
			case clob && c >= 0x80:
				return nil, false
			default:
				out = append(out, c)
			}
		}
		// another segment?
		save := p.pos
		if clob {
			for !p.eof() && tIsWS(p.peek()) {
				p.pos++
			}
		} else if !p.skipWS() {
			return nil, false
		}
		if !p.atTriple() {
			p.pos = save
			break
		}
	}
	if !clob && !refUTF8(out) {
		return nil, false
	}
	return out, true
}

func tB64(c byte) (uint32, bool) {
	switch {
	case c >= 'A' && c <= 'Z':
		return uint32(c - 'A'), true
	case c >= 'a' && c <= 'z':
		return uint32(c-'a') + 26, true
	case c >= '0' && c <= '9':
		return uint32(c-'0') + 52, true
	case c == '+':
		return 62, true
	case c == '/':
		return 63, true
	}
	return 0, false
}

// lob parses after "{{".
func (p *tParser) lob(ev *tEv) bool {
	for !p.eof() && tIsWS(p.peek()) {
		p.pos++
	}
	if p.eof() {
		return false
	}
	if p.peek() == '"' {
		p.pos++
		s, ok := p.quoted('"', true)
		if !ok {
			return false
		}
		ev.typ, ev.s = ClobType, s
	} else if p.atTriple() {
		s, ok := p.longSegments(true)
		if !ok {
			return false
		}
		ev.typ, ev.s = ClobType, s
	} else {
		var out []byte
		var acc uint32
		n, pad := 0, 0
		for {
			if p.eof() {
				return false
			}
			c := p.peek()
			if tIsWS(c) {
				p.pos++
				continue
			}
			if c == '}' {
				break
			}
			p.pos++
			if c == '=' {
				pad++
				if pad > 2 {
					return false
				}
				continue
			}
			v, ok := tB64(c)
			if !ok || pad > 0 {
				return false
			}
			acc = acc<<6 | v
			n++
			if n == 4 {
				out = append(out, byte(acc>>16), byte(acc>>8), byte(acc))
				acc, n = 0, 0
			}
		}
		switch {
		case n == 0 && pad == 0:
		case n == 2 && pad == 2:
			if acc&0xF != 0 {
				p.unsure = true // non-canonical padding bits
			}
			out = append(out, byte(acc>>4))
		case n == 3 && pad == 1:
			if acc&0x3 != 0 {
				p.unsure = true
			}
			out = append(out, byte(acc>>10), byte(acc>>2))
		default:
			return false
		}
		ev.typ, ev.s = BlobType, out
	}
	for !p.eof() && tIsWS(p.peek()) {
		p.pos++
	}
	if !p.has(1) || p.peek() != '}' || p.at(1) != '}' {
		return false
	}
	p.pos += 2
	return true
}

// digitsUS parses digit (_? digit)* with the given digit predicate; returns the digits without underscores.
func (p *tParser) digitsUS(is func(byte) bool) ([]byte, bool) {
	var d []byte
	if p.eof() || !is(p.peek()) {
		return nil, false
	}
	for !p.eof() {
		c := p.peek()
		if is(c) {
			d = append(d, c)
			p.pos++
			continue
		}
		if c == '_' {
			if !p.has(1) || !is(p.at(1)) {
				return nil, false
			}
			p.pos++
			continue
		}
		break
	}
	return d, true
}

func tIsBin(c byte) bool { return c == '0' || c == '1' }

// number parses an int, hex, binary, decimal, float or timestamp starting at a digit or '-'.
func (p *tParser) number(ev *tEv) bool {
	start := p.pos
	neg := false
	if p.peek() == '-' {
		neg = true
		p.pos++
	}
	if p.eof() || !tIsDigit(p.peek()) {
		return false
	}
	// timestamp: four digits then '-' or 'T'
	if !neg && p.has(4) && tIsDigit(p.at(1)) && tIsDigit(p.at(2)) && tIsDigit(p.at(3)) && (p.at(4) == '-' || p.at(4) == 'T') {
		return p.timestamp(ev)
	}
	if p.peek() == '0' && p.has(1) && (p.at(1) == 'x' || p.at(1) == 'X' || p.at(1) == 'b' || p.at(1) == 'B') {
		hex := p.at(1) == 'x' || p.at(1) == 'X'
		p.pos += 2
		var d []byte
		var ok bool
		if hex {
			d, ok = p.digitsUS(tIsHex)
		} else {
			d, ok = p.digitsUS(tIsBin)
		}
		if !ok || !p.atStop() {
			return false
		}
		var v uint64
		if hex {
			if len(d) > 15 {
				p.unsure = true
			}
			for _, c := range d {
				v = v<<4 | uint64(tHexVal(c))
			}
		} else {
			if len(d) > 62 {
				p.unsure = true
			}
			for _, c := range d {
				v = v<<1 | uint64(c-'0')
			}
		}
		ev.typ = IntType
		ev.ival = int64(v)
		if neg {
			ev.ival = -ev.ival
		}
		return true
	}
	// decimal digits of the integer part: no leading zeros
	d, ok := p.digitsUS(tIsDigit)
	if !ok {
		return false
	}
	if len(d) > 1 && d[0] == '0' {
		return false
	}
	if p.has(0) && p.peek() == '_' {
		return false
	}
	isInt := true
	var frac []byte
	if !p.eof() && p.peek() == '.' {
		isInt = false
		p.pos++
		if !p.eof() && tIsDigit(p.peek()) {
			frac, ok = p.digitsUS(tIsDigit)
			if !ok {
				return false
			}
		}
		if !p.eof() && p.peek() == '_' {
			return false
		}
	}
	if !p.eof() && (p.peek() == 'd' || p.peek() == 'D' || p.peek() == 'e' || p.peek() == 'E') {
		isFloat := p.peek() == 'e' || p.peek() == 'E'
		isInt = false
		p.pos++
		eneg := false
		if !p.eof() && (p.peek() == '+' || p.peek() == '-') {
			eneg = p.peek() == '-'
			p.pos++
		}
		if p.eof() || !tIsDigit(p.peek()) {
			return false
		}
		var e int64
		n := 0
		for !p.eof() && tIsDigit(p.peek()) {
			e = e*10 + int64(p.peek()-'0')
			n++
			p.pos++
		}
		if n > 9 {
			p.unsure = true
		}
		if eneg {
			e = -e
		}
		if !p.atStop() {
			return false
		}
		if isFloat {
			ev.typ = FloatType
			return true
		}
		ev.typ = DecimalType
		ev.dneg = neg
		ev.ddigits = append(append([]byte{}, d...), frac...)
		ev.dexp = e - int64(len(frac))
		return true
	}
	if !p.atStop() {
		return false
	}
	if isInt {
		if len(d) > 18 {
			p.unsure = true
		}
		var v int64
		for _, c := range d {
			v = v*10 + int64(c-'0')
		}
		if neg {
			v = -v
		}
		ev.typ = IntType
		ev.ival = v
		_ = start
		return true
	}
	ev.typ = DecimalType
	ev.dneg = neg
	ev.ddigits = append(append([]byte{}, d...), frac...)
	ev.dexp = -int64(len(frac))
	return true
}

func (p *tParser) fixedDigits(n int) (uint64, bool) {
	var v uint64
	for i := 0; i < n; i++ {
		if p.eof() || !tIsDigit(p.peek()) {
			return 0, false
		}
		v = v*10 + uint64(p.peek()-'0')
		p.pos++
	}
	return v, true
}

// timestamp: lexical and calendar validity only.
func (p *tParser) timestamp(ev *tEv) bool {
	ev.typ = TimestampType
	year, _ := p.fixedDigits(4)
	if year < 1 {
		return false
	}
	if p.peek() == 'T' {
		p.pos++
		return p.atStop()
	}
	p.pos++ // '-'
	month, ok := p.fixedDigits(2)
	if !ok || month < 1 || month > 12 {
		return false
	}
	if p.eof() {
		return false
	}
	if p.peek() == 'T' {
		p.pos++
		return p.atStop()
	}
	if p.peek() != '-' {
		return false
	}
	p.pos++
	day, ok := p.fixedDigits(2)
	if !ok || day < 1 || day > rDaysIn(year, month) {
		return false
	}
	if p.eof() || p.peek() != 'T' {
		return p.atStop()
	}
	p.pos++
	if p.eof() || !tIsDigit(p.peek()) {
		return p.atStop()
	}
	hour, ok := p.fixedDigits(2)
	if !ok || hour > 23 || p.eof() || p.peek() != ':' {
		return false
	}
	p.pos++
	minute, ok := p.fixedDigits(2)
	if !ok || minute > 59 {
		return false
	}
	if !p.eof() && p.peek() == ':' {
		p.pos++
		sec, ok := p.fixedDigits(2)
		if !ok || sec > 59 {
			return false
		}
		if !p.eof() && p.peek() == '.' {
			p.pos++
			if p.eof() || !tIsDigit(p.peek()) {
				return false
			}
			for !p.eof() && tIsDigit(p.peek()) {
				p.pos++
			}
		}
	}
	// offset is mandatory once there is a time
	if p.eof() {
		return false
	}
	if p.peek() == 'Z' {
		p.pos++
		return p.atStop()
	}
	if p.peek() != '+' && p.peek() != '-' {
		return false
	}
	p.pos++
	oh, ok := p.fixedDigits(2)
	if !ok || oh > 23 || p.eof() || p.peek() != ':' {
		return false
	}
	p.pos++
	om, ok := p.fixedDigits(2)
	if !ok || om > 59 {
		return false
	}
	return p.atStop()
}

func tTypeName(s []byte) (Type, bool) {
	switch string(s) {
	case "null":
		return NullType, true
	case "bool":
		return BoolType, true
	case "int":
		return IntType, true
	case "float":
		return FloatType, true
	case "decimal":
		return DecimalType, true
	case "timestamp":
		return TimestampType, true
	case "symbol":
		return SymbolType, true
	case "string":
		return StringType, true
	case "clob":
		return ClobType, true
	case "blob":
		return BlobType, true
	case "list":
		return ListType, true
	case "sexp":
		return SexpType, true
	case "struct":
		return StructType, true
	}
	return NoType, false
}

// symbolToken parses an identifier / quoted symbol at the current position (not operators).
// kw: the identifier is one of the keywords null true false nan (not a symbol).
func (p *tParser) symbolToken() (s tSym, kw bool, quoted bool, ok bool) {
	if p.peek() == '\'' {
		p.pos++
		t, ok := p.quoted('\'', false)
		if !ok {
			return s, false, true, false
		}
		return tSym{hasText: true, text: string(t)}, false, true, true
	}
	start := p.pos
	for !p.eof() && tIsIdPart(p.peek()) {
		p.pos++
	}
	id := p.b[start:p.pos]
	switch string(id) {
	case "null", "true", "false", "nan":
		return tSym{hasText: true, text: string(id)}, true, false, true
	}
	if len(id) > 1 && id[0] == '$' {
		allDigits := true
		var v uint64
		for _, c := range id[1:] {
			if !tIsDigit(c) {
				allDigits = false
				break
			}
			if v > 1<<40 {
				p.unsure = true
			}
			v = v*10 + uint64(c-'0')
		}
		if allDigits {
			if v > 9 {
				p.unsure = true // above the system symbol table: decided by the symbol table in force (C10)
				return tSym{sid: v}, false, false, true
			}
			if v == 0 {
				return tSym{sid: 0}, false, false, true
			}
			return tSym{hasText: true, text: rSystemSymbols[v-1], sid: v}, false, false, true
		}
	}
	return tSym{hasText: true, text: string(id)}, false, false, true
}

// afterDoubleColon: skips ws and reports whether "::" follows (consuming it).
func (p *tParser) doubleColon() (bool, bool) {
	save := p.pos
	if !p.skipWS() {
		return false, false
	}
	if p.has(1) && p.peek() == ':' && p.at(1) == ':' {
		p.pos += 2
		return true, true
	}
	p.pos = save
	return false, true
}

const (
	tTop = iota
	tList
	tSexp
	tStruct
)

// value parses annotations and one value. In a sexp operators are values too.
func (p *tParser) value(ctx, depth int, hasField bool, field tSym) bool {
	var anns []tSym
	for {
		if !p.skipWS() || p.eof() {
			return false
		}
		c := p.peek()
		ev := tEv{depth: depth, hasField: hasField, field: field}
		switch {
		case c == '"':
			p.pos++
			s, ok := p.quoted('"', false)
			if !ok {
				return false
			}
			ev.typ, ev.s = StringType, s
		case c == '\'' && p.atTriple():
			s, ok := p.longSegments(false)
			if !ok {
				return false
			}
			ev.typ, ev.s = StringType, s
		case c == '\'' || tIsIdStart(c):
			s, kw, quoted, ok := p.symbolToken()
			if !ok {
				return false
			}
			isAnn, okc := p.doubleColon()
			if !okc {
				return false
			}
			if isAnn {
				if kw {
					return false // keywords are not symbols
				}
				if !quoted && s.hasText && len(s.text) > 4 && s.text[:4] == "$ion" {
					p.unsure = true // system annotations ($ion_symbol_table ...) are C10's subject
				}
				anns = append(anns, s)
				continue
			}
			if kw {
				switch s.text {
				case "true", "false":
					ev.typ, ev.b = BoolType, s.text == "true"
				case "nan":
					ev.typ, ev.fkind = FloatType, 1
				default: // null or null.type
					ev.typ, ev.null = NullType, true
					if !p.eof() && p.peek() == '.' {
						// null.<type>: in a sexp "null ." could also be an operator; only the glued form is a typed null
						st := p.pos + 1
						e := st
						for e < len(p.b) && tIsIdPart(p.b[e]) {
							e++
						}
						t, ok := tTypeName(p.b[st:e])
						if !ok {
							if ctx == tSexp {
								p.unsure = true
							}
							return false
						}
						ev.typ = t
						p.pos = e
					}
				}
				if !quoted && !p.eof() && tIsIdPart(p.peek()) {
					return false
				}
			} else {
				if !quoted && s.hasText && len(s.text) >= 4 && s.text[:4] == "$ion" && len(anns) == 0 && depth == 0 {
					p.unsure = true // version markers / system symbols at top level: C10
				}
				ev.typ, ev.sym = SymbolType, s
			}
		case tIsDigit(c) || (c == '-' && p.has(1) && tIsDigit(p.at(1))):
			if !p.number(&ev) {
				return false
			}
		case (c == '+' || c == '-') && p.has(3) && p.at(1) == 'i' && p.at(2) == 'n' && p.at(3) == 'f':
			save := p.pos
			p.pos += 4
			if p.atStop() {
				ev.typ = FloatType
				ev.fkind = 2
				if c == '-' {
					ev.fkind = 3
				}
			} else {
				p.pos = save
				if ctx != tSexp {
					return false
				}
				p.unsure = true
				return false
			}
		case c == '{' && p.has(1) && p.at(1) == '{':
			p.pos += 2
			if !p.lob(&ev) {
				return false
			}
		case c == '{':
			p.pos++
			ev.typ = StructType
			ev.ann = anns
			p.evs = append(p.evs, ev)
			return p.seq(tStruct, depth+1)
		case c == '[':
			p.pos++
			ev.typ = ListType
			ev.ann = anns
			p.evs = append(p.evs, ev)
			return p.seq(tList, depth+1)
		case c == '(':
			p.pos++
			ev.typ = SexpType
			ev.ann = anns
			p.evs = append(p.evs, ev)
			return p.seq(tSexp, depth+1)
		case ctx == tSexp && tIsOp(c):
			if len(anns) > 0 {
				return false // operators cannot be annotated... and cannot be annotations
			}
			start := p.pos
			for !p.eof() && tIsOp(p.peek()) {
				p.pos++
			}
			op := p.b[start:p.pos]
			for _, oc := range op {
				if oc == '/' {
					p.unsure = true
				}
			}
			last := op[len(op)-1]
			if (last == '-' || last == '+') && !p.eof() && (tIsDigit(p.peek()) || p.peek() == 'i') {
				p.unsure = true
			}
			ev.typ, ev.sym = SymbolType, tSym{hasText: true, text: string(op)}
		default:
			return false
		}
		ev.ann = anns
		p.evs = append(p.evs, ev)
		return true
	}
}

// seq parses the values of a container (after its opening bracket) or of the top level.
func (p *tParser) seq(ctx, depth int) bool {
	first := true
	for {
		if !p.skipWS() {
			return false
		}
		if p.eof() {
			return ctx == tTop
		}
		c := p.peek()
		switch ctx {
		case tList:
			if c == ']' {
				p.pos++
				return true
			}
		case tSexp:
			if c == ')' {
				p.pos++
				return true
			}
		case tStruct:
			if c == '}' {
				p.pos++
				return true
			}
		}
		if (ctx == tList || ctx == tStruct) && !first {
			if c != ',' {
				return false
			}
			p.pos++
			if !p.skipWS() || p.eof() {
				return false
			}
			c = p.peek()
			if (ctx == tList && c == ']') || (ctx == tStruct && c == '}') {
				p.pos++ // trailing comma
				return true
			}
		}
		first = false
		var field tSym
		if ctx == tStruct {
			switch {
			case c == '"':
				p.pos++
				s, ok := p.quoted('"', false)
				if !ok {
					return false
				}
				field = tSym{hasText: true, text: string(s)}
			case c == '\'' && p.atTriple():
				s, ok := p.longSegments(false)
				if !ok {
					return false
				}
				field = tSym{hasText: true, text: string(s)}
			case c == '\'' || tIsIdStart(c):
				s, kw, _, ok := p.symbolToken()
				if !ok || kw {
					return false
				}
				field = s
			default:
				return false
			}
			if !p.skipWS() || p.eof() || p.peek() != ':' {
				return false
			}
			if p.has(1) && p.at(1) == ':' {
				return false
			}
			p.pos++
		}
		if ctx == tTop && depth != 0 {
			return false
		}
		if !p.value(ctx, depth, ctx == tStruct, field) {
			return false
		}
	}
}

func refTextParse(b []byte) (evs []tEv, ok bool, unsure bool) {
	p := &tParser{b: b}
	ok = p.seq(tTop, 0)
	return p.evs, ok, p.unsure
}

// ---- comparison with what the real Reader showed ----

func tSymMatches(x tSym, g vSym) bool {
	if !g.present || g.err {
		return false
	}
	if x.hasText {
		return g.hasText && g.text == x.text
	}
	return !g.hasText && uint64(g.sid) == x.sid
}

func tMatches(x tEv, g vEv) bool {
	if g.depth != x.depth || g.typ != x.typ || g.null != x.null || g.accErr || g.annErr || g.field.err {
		return false
	}
	if g.field.present != x.hasField {
		return false
	}
	if x.hasField && !tSymMatches(x.field, g.field) {
		return false
	}
	if len(g.ann) != len(x.ann) {
		return false
	}
	for i := range x.ann {
		if !tSymMatches(x.ann[i], g.ann[i]) {
			return false
		}
	}
	if x.null {
		return true
	}
	switch x.typ {
	case BoolType:
		return g.b == x.b
	case IntType:
		return !g.isBig && g.i == x.ival
	case FloatType:
		switch x.fkind {
		case 1:
			return g.f&0x7FF0000000000000 == 0x7FF0000000000000 && g.f&0x000FFFFFFFFFFFFF != 0
		case 2:
			return g.f == 0x7FF0000000000000
		case 3:
			return g.f == 0xFFF0000000000000
		}
		return true
	case DecimalType:
		if g.dec == nil {
			return false
		}
		coef, exp := g.dec.CoEx()
		if int64(exp) != x.dexp {
			return false
		}
		zero := true
		for _, c := range x.ddigits {
			if c != '0' {
				zero = false
			}
		}
		if zero {
			return coef.Sign() == 0 && g.dec.isNegZero == x.dneg
		}
		if len(x.ddigits) > 18 {
			return true // value not judged beyond 18 digits
		}
		v := vDigitsValue(x.ddigits)
		if x.dneg {
			v = -v
		}
		return !g.dec.isNegZero && coef.IsInt64() && coef.Int64() == v
	case SymbolType:
		return tSymMatches(x.sym, g.sym)
	case StringType:
		return g.s == string(x.s)
	case ClobType, BlobType:
		return vSameBytes(g.bs, x.s)
	}
	return true
}
