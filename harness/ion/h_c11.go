package ion

// C11: binary writers with shared or fixed symbol tables emit resolvable, minimal symbols.
//
// H_C11_shared: a binary Writer is created with nimp shared tables (from a pool of three; each optionally adjusted to a
// symbolic max_id), up to nsym symbols are written as value / field name / annotation with text chosen by solver
// variables from a pool of texts inside and outside those tables. The output is decoded by the independent decoder
// refBinDecode holding the same tables as its catalog: well-formed, every symbol ID defined, every text recovered;
// the stream's symbol table declares each import with name, version and max_id; a text found in an import is
// written with the imported ID; the local symbols are exactly the remaining texts, once each. Decoded without the
// catalog the same IDs appear with unknown text. The real Reader with the tables in its catalog recovers every text.
//
// H_C11_fixed: NewBinaryWriterLST with a fixed table: text in the table is written with the table's ID; text outside
// makes the call fail and nothing undefined is emitted.

var vC11Pool = []string{"a", "c", "e", "z", "name", "$11", ""} // incl. text that looks like a symbol ID, and the empty symbol

var vC11Names = []string{"t1", "t2", "t3"}

type vC11Sym struct {
	text string
	pos  int // 0 value, 1 field name, 2 annotation
}

func vC11Tables(nimp int) (tabs []SharedSymbolTable, cat []rShared, ref *rSymtab) {
	ref = &rSymtab{}
	ref.segs = append(ref.segs, rSegOf(rSystemSymbols, 9))
	for k := 0; k < nimp; k++ {
		kind := vnondetInt(0, len(vC09Shared)-1)
		texts := vC09Shared[kind]
		name := vC11Names[k]
		t := NewSharedSymbolTable(name, k+1, texts)
		cat = append(cat, rShared{name: name, version: int64(k + 1), symbols: texts})
		size := uint64(len(texts))
		if vnondetBool() {
			size = uint64(vnondetInt(0, 5))
			t = t.Adjust(size)
		}
		tabs = append(tabs, t)
		ref.segs = append(ref.segs, rSegOf(texts, size))
	}
	return
}

func vC11Write(w Writer, syms []vC11Sym) bool {
	for _, s := range syms {
		text := s.text
		tok := SymbolToken{Text: &text, LocalSID: SymbolIDUnknown}
		switch s.pos {
		case 0:
			if w.WriteSymbol(tok) != nil {
				return false
			}
		case 1:
			if w.BeginStruct() != nil || w.FieldName(tok) != nil || w.WriteInt(1) != nil || w.EndStruct() != nil {
				return false
			}
		default:
			if w.Annotation(tok) != nil || w.WriteInt(2) != nil {
				return false
			}
		}
	}
	return true
}

// vC11Decoded extracts the texts / ids of the symbols written, in order, from decoded user events.
func vC11Decoded(us []rEv) (out []rSym) {
	for _, e := range us {
		switch {
		case e.typ == SymbolType && e.depth == 0:
			out = append(out, e.sym)
		case e.typ == IntType && e.depth == 1 && e.hasField:
			out = append(out, e.field)
		case e.typ == IntType && e.depth == 0 && len(e.ann) == 1:
			out = append(out, e.ann[0])
		}
	}
	return
}

func H_C11_shared() {
	nimp := vparam("nimp", 1)
	nsym := vparam("nsym", 2)
	tabs, cat, ref := vC11Tables(nimp)
	n := vnondetInt(1, nsym)
	var syms []vC11Sym
	for i := 0; i < n; i++ {
		syms = append(syms, vC11Sym{text: vC11Pool[vnondetInt(0, len(vC11Pool)-1)], pos: vnondetInt(0, 2)})
	}
	out := &vSink{failAt: -1}
	w := NewBinaryWriter(out, tabs...)
	vassert(vC11Write(w, syms), "every write succeeds")
	vassert(w.Finish() == nil, "Finish succeeds")
	enc := out.buf

	// with the catalog
	d, ok := refBinDecode(enc, cat)
	vassert(ok && !d.unsure, "output is well-formed Ion binary under the independent decoder")
	vassert(!d.undef, "every symbol ID used is defined by the stream's own symbol table")
	got := vC11Decoded(d.user())
	vassert(len(got) == len(syms), "every written symbol is found")
	// expected local symbols: texts not found in system/imports, first occurrence order
	var locals []string
	for i, s := range syms {
		vassert(got[i].known && got[i].text == s.text, "a reader holding the same tables recovers the symbol's text")
		if id, inImports := ref.byName(s.text); inImports {
			vassert(got[i].sid == id, "text found in an import is written with the imported ID")
			vcover("imported")
		} else {
			seen := false
			for _, l := range locals {
				if l == s.text {
					seen = true
				}
			}
			if !seen {
				locals = append(locals, s.text)
			}
			vcover("local")
		}
	}
	// the stream's symbol table: imports with name/version/max_id, locals exactly the remaining texts
	var impNames []string
	var impVers, impMax []uint64
	var declLocals []string
	for i, e := range d.evs {
		if !e.lstVal {
			continue
		}
		if e.depth == 3 && e.hasField {
			switch e.field.sid {
			case 4:
				impNames = append(impNames, string(e.bs))
			case 5:
				v, _ := refUint(e.mag)
				impVers = append(impVers, v)
			case 8:
				v, _ := refUint(e.mag)
				impMax = append(impMax, v)
			}
		}
		if e.depth == 2 && e.typ == StringType && i > 0 {
			declLocals = append(declLocals, string(e.bs))
		}
	}
	if nimp > 0 {
		vassert(len(impNames) == nimp && len(impVers) == nimp && len(impMax) == nimp, "each import is declared with name, version and max_id")
		for k := 0; k < nimp; k++ {
			vassert(impNames[k] == vC11Names[k] && impVers[k] == uint64(k+1) && impMax[k] == ref.segs[k+1].size, "import declared with its own name, version and max_id, in order")
		}
	}
	vassert(len(declLocals) == len(locals), "only text not found in the imports is defined locally, once each")
	for i := range locals {
		vassert(declLocals[i] == locals[i], "local symbols in first-use order")
	}

	// without the catalog: same IDs, imported texts unknown
	d2, ok2 := refBinDecode(enc, nil)
	if ok2 && !d2.unsure {
		got2 := vC11Decoded(d2.user())
		vassert(len(got2) == len(got), "same shape without the catalog")
		for i := range got2 {
			vassert(got2[i].sid == got[i].sid && !got2[i].undef, "IDs still line up without the catalog")
		}
	}

	// the real Reader with the same catalog
	r := NewReaderCat(&vChunkSrc{data: enc, failAt: -1}, NewCatalog(tabs...))
	var evs []vEv
	stepErr := vTraverse(r, 0, 4, false, &evs)
	vassert(!stepErr && r.Err() == nil, "a Reader holding the same tables reads the stream")
	k := 0
	for _, e := range evs {
		var s vSym
		switch {
		case e.typ == SymbolType && e.depth == 0:
			s = e.sym
		case e.typ == IntType && e.depth == 1:
			s = e.field
		case e.typ == IntType && e.depth == 0 && len(e.ann) == 1:
			s = e.ann[0]
		default:
			continue
		}
		vassert(k < len(syms) && s.hasText && s.text == syms[k].text, "the Reader recovers every symbol's text")
		k++
	}
	vassert(k == len(syms), "the Reader sees every symbol")
	vobserve("len", uint64(len(enc)))
	vcover("end")
}

func H_C11_fixed() {
	nimp := vparam("nimp", 1)
	tabs, cat, ref := vC11Tables(nimp)
	nl := vnondetInt(0, vparam("nl", 1))
	var locals []string
	for i := 0; i < nl; i++ {
		locals = append(locals, vC11Pool[vnondetInt(0, len(vC11Pool)-1)])
	}
	ref.segs = append(ref.segs, rSegOf(locals, uint64(len(locals))))
	lst := NewLocalSymbolTable(tabs, locals)
	out := &vSink{failAt: -1}
	w := NewBinaryWriterLST(out, lst)
	text := vC11Pool[vnondetInt(0, len(vC11Pool)-1)]
	// the empty symbol defined by the fixed table itself is the open known finding F13 (C09: FindByName("") does not
	// find an empty-string symbol a local symbol table defines); it is not counted a second time here
	vassume(text != "")
	pos := vnondetInt(0, 2)
	okw := vC11Write(w, []vC11Sym{{text: text, pos: pos}})
	id, inTable := ref.byName(text)
	if !inTable {
		vassert(!okw, "text outside the fixed table makes the call fail")
		vassert(w.Finish() != nil, "and the failure is permanent")
		vcover("outside")
	} else {
		vassert(okw, "text in the fixed table is written")
		vassert(w.Finish() == nil, "Finish succeeds")
		d, ok := refBinDecode(out.buf, cat)
		vassert(ok && !d.unsure && !d.undef, "output well-formed and self-contained")
		got := vC11Decoded(d.user())
		vassert(len(got) == 1 && got[0].sid == id, "text in the table is written with the table's ID")
		vassert(got[0].known && got[0].text == text, "and resolves to the text")
		vcover("inside")
	}
	// nothing undefined is ever emitted
	if len(out.buf) > 0 {
		d, ok := refBinDecode(out.buf, cat)
		if ok {
			vassert(!d.undef, "no symbol ID the stream does not define is emitted")
		}
	}
	vcover("end")
}
