package main

import (
	"fmt"
	"go/constant"
	"go/token"
	"go/types"
	"math/big"
	"strings"

	"golang.org/x/tools/go/ssa"
)

type unsupported string
type pathEnd struct{ why string } // normal end of path exploration (assume false, violation stop, ...)

type Engine struct {
	prog    *ssa.Program
	pkg     *ssa.Package
	b       *TermBank
	x       *Explorer
	globals map[*ssa.Global]*Slot
	inInit  bool
	initWrites int
	steps   int
	depth   int
	funcsEntered map[string]int
	loopBound int
	allocLimit int
	curInitPkg *ssa.Package
}

type frame struct {
	fn     *ssa.Function
	env    map[ssa.Value]Value
	defers []func()
	loops  map[*ssa.BasicBlock]int
}

func (e *Engine) global(g *ssa.Global) *Slot {
	s, ok := e.globals[g]
	if !ok {
		s = e.newSlot(g.Type().(*types.Pointer).Elem())
		s.init = true
		e.globals[g] = s
	}
	return s
}

func (e *Engine) constVal(c *ssa.Const) Value {
	t := c.Type()
	if c.Value == nil {
		return e.zero(t)
	}
	switch u := t.Underlying().(type) {
	case *types.Basic:
		switch {
		case u.Info()&types.IsBoolean != 0:
			return e.b.Bool(constant.BoolVal(c.Value))
		case u.Info()&types.IsInteger != 0:
			v, _ := new(big.Int).SetString(constant.ToInt(c.Value).ExactString(), 10)
			return e.b.BV(v, intWidth(u))
		case u.Info()&types.IsString != 0:
			s := constant.StringVal(c.Value)
			return e.strConst(s)
		case u.Info()&types.IsFloat != 0:
			return &Opaque{"float const"}
		}
	}
	panic(unsupported(fmt.Sprintf("const %v of type %v", c, t)))
}

func (e *Engine) strConst(s string) *StrV {
	r := &StrV{b: make([]*Term, len(s))}
	for i := 0; i < len(s); i++ {
		r.b[i] = e.b.BVu(uint64(s[i]), 8)
	}
	return r
}

func (e *Engine) get(f *frame, v ssa.Value) Value {
	switch x := v.(type) {
	case *ssa.Const:
		return e.constVal(x)
	case *ssa.Global:
		return &Ptr{e.global(x)}
	case *ssa.Function:
		return &FuncV{fn: x}
	case *ssa.Builtin:
		return &FuncV{bi: x}
	}
	r, ok := f.env[v]
	if !ok {
		panic(fmt.Sprintf("no value for %s in %s", v.Name(), f.fn))
	}
	return r
}

func (e *Engine) term(v Value) *Term {
	t, ok := v.(*Term)
	if !ok {
		panic(unsupported(fmt.Sprintf("expected scalar, got %T", v)))
	}
	return t
}

// concrete int from a term, forking if symbolic (concretisation up to limit)
func (e *Engine) concInt(t *Term, signedT bool, what string, limit int) int {
	if t.IsConst() {
		if signedT {
			return int(t.ConstS())
		}
		return int(t.ConstU())
	}
	return e.x.concretize(t, signedT, what, limit)
}

func (e *Engine) call(fn *ssa.Function, args []Value, free []Value) Value {
	name := fn.String()
	if h, ok := intrinsics[name]; ok {
		return h(e, args)
	}
	if fn.Blocks == nil {
		panic(unsupported("external function " + name))
	}
	e.funcsEntered[name]++
	e.depth++
	if e.depth > 200 {
		panic(unsupported("call depth"))
	}
	defer func() { e.depth-- }()
	f := &frame{fn: fn, env: map[ssa.Value]Value{}, loops: map[*ssa.BasicBlock]int{}}
	for i, p := range fn.Params {
		f.env[p] = args[i]
	}
	for i, fv := range fn.FreeVars {
		f.env[fv] = free[i]
	}
	var prev *ssa.BasicBlock
	blk := fn.Blocks[0]
	for {
		f.loops[blk]++
		if f.loops[blk] > e.loopBound {
			e.x.unwindFail(fn, blk)
		}
		var next *ssa.BasicBlock
		for _, ins := range blk.Instrs {
			e.steps++
			switch in := ins.(type) {
			case *ssa.Phi:
				for i, p := range blk.Preds {
					if p == prev {
						f.env[in] = e.get(f, in.Edges[i])
						break
					}
				}
			case *ssa.If:
				c := e.term(e.get(f, in.Cond))
				var taken bool
				if c.IsConst() {
					taken = c.ConstBool()
				} else {
					taken = e.x.branch(c, fn, ins)
				}
				if taken {
					next = blk.Succs[0]
				} else {
					next = blk.Succs[1]
				}
			case *ssa.Jump:
				next = blk.Succs[0]
			case *ssa.Return:
				for i := len(f.defers) - 1; i >= 0; i-- {
					f.defers[i]()
				}
				switch len(in.Results) {
				case 0:
					return nil
				case 1:
					return e.get(f, in.Results[0])
				default:
					tv := make(Tuple, len(in.Results))
					for i, r := range in.Results {
						tv[i] = e.get(f, r)
					}
					return tv
				}
			case *ssa.Panic:
				e.x.goPanic(fn, ins, "explicit panic")
			case *ssa.RunDefers:
				for i := len(f.defers) - 1; i >= 0; i-- {
					f.defers[i]()
				}
				f.defers = nil
			default:
				e.exec(f, ins)
			}
		}
		prev, blk = blk, next
	}
}

func (e *Engine) exec(f *frame, ins ssa.Instruction) {
	switch in := ins.(type) {
	case *ssa.Alloc:
		f.env[in] = &Ptr{e.newSlot(in.Type().(*types.Pointer).Elem())}
	case *ssa.BinOp:
		f.env[in] = e.binop(f, in)
	case *ssa.UnOp:
		f.env[in] = e.unop(f, in)
	case *ssa.Convert:
		f.env[in] = e.convert(f, in)
	case *ssa.ChangeType:
		f.env[in] = e.get(f, in.X)
	case *ssa.Store:
		if sp, ok := e.get(f, in.Addr).(*SymPtr); ok {
			v := e.term(e.get(f, in.Val))
			for i := 0; i < sp.n; i++ {
				k := sp.base.kids[sp.off+i]
				k.val = e.b.Ite(e.b.Eq(sp.idx, e.b.BVu(uint64(i), sp.idx.sort.W)), v, e.term(k.val))
			}
			return
		}
		p := e.get(f, in.Addr).(*Ptr)
		if p.s == nil {
			e.x.goPanic(f.fn, ins, "nil dereference (store)")
		}
		e.store(p.s, e.get(f, in.Val))
	case *ssa.FieldAddr:
		p := e.get(f, in.X).(*Ptr)
		if p.s == nil {
			e.x.goPanic(f.fn, ins, "nil dereference (field)")
		}
		f.env[in] = &Ptr{p.s.kids[in.Field]}
	case *ssa.Field:
		f.env[in] = e.get(f, in.X).(*StructV).f[in.Field]
	case *ssa.IndexAddr:
		f.env[in] = e.indexAddr(f, in)
	case *ssa.Index:
		f.env[in] = e.index(f, in)
	case *ssa.Slice:
		f.env[in] = e.slice(f, in)
	case *ssa.MakeSlice:
		ln := e.concInt(e.term(e.get(f, in.Len)), true, "make len", e.allocLimit)
		cp := e.concInt(e.term(e.get(f, in.Cap)), true, "make cap", e.allocLimit)
		if ln < 0 || cp < ln {
			e.x.goPanic(f.fn, ins, "makeslice: len out of range")
		}
		el := in.Type().Underlying().(*types.Slice).Elem()
		f.env[in] = &SliceV{arr: e.newArraySlot(el, cp), len: ln, cap: cp}
	case *ssa.Extract:
		f.env[in] = e.get(f, in.Tuple).(Tuple)[in.Index]
	case *ssa.Call:
		f.env[in] = e.doCall(f, in, &in.Call)
	case *ssa.Defer:
		c := in.Call
		args := e.callArgs(f, &c)
		fv := e.calleeOf(f, &c, &args)
		f.defers = append(f.defers, func() { e.invoke(fv, args) })
	case *ssa.MakeInterface:
		f.env[in] = &Iface{t: in.X.Type(), v: e.get(f, in.X)}
	case *ssa.ChangeInterface:
		f.env[in] = e.get(f, in.X)
	case *ssa.TypeAssert:
		f.env[in] = e.typeAssert(f, in)
	case *ssa.MakeClosure:
		fv := &FuncV{fn: in.Fn.(*ssa.Function)}
		for _, b := range in.Bindings {
			fv.free = append(fv.free, e.get(f, b))
		}
		f.env[in] = fv
	case *ssa.MakeMap:
		f.env[in] = &MapV{&MapObj{}}
	case *ssa.MapUpdate:
		m := e.get(f, in.Map).(*MapV)
		if m.m == nil {
			e.x.goPanic(f.fn, ins, "assignment to entry in nil map")
		}
		k, v := e.get(f, in.Key), e.get(f, in.Value)
		for i := range m.m.ents {
			if e.concEq(m.m.ents[i].k, k) {
				m.m.ents[i].v = v
				return
			}
		}
		m.m.ents = append(m.m.ents, MapEntry{k, v})
	case *ssa.Lookup:
		f.env[in] = e.lookup(f, in)
	case *ssa.Range:
		switch x := e.get(f, in.X).(type) {
		case *MapV:
			mo := x.m
			if mo == nil {
				mo = &MapObj{}
			}
			f.env[in] = &IterV{m: &MapObj{ents: append([]MapEntry{}, mo.ents...)}}
		case *StrV:
			f.env[in] = &IterV{str: x}
		}
	case *ssa.Next:
		it := e.get(f, in.Iter).(*IterV)
		if it.m != nil {
			if it.pos < len(it.m.ents) {
				en := it.m.ents[it.pos]
				it.pos++
				f.env[in] = Tuple{e.b.Bool(true), en.k, en.v}
			} else {
				f.env[in] = Tuple{e.b.Bool(false), nil, nil}
			}
		} else {
			panic(unsupported("range over string"))
		}
	case *ssa.DebugRef:
	default:
		panic(unsupported(fmt.Sprintf("instruction %T", ins)))
	}
}

// concrete equality for map keys (strings with const bytes, const ints)
func (e *Engine) concEq(a, b Value) bool {
	switch x := a.(type) {
	case *Term:
		y := b.(*Term)
		if !x.IsConst() || !y.IsConst() {
			panic(unsupported("symbolic map key"))
		}
		return x == y
	case *StrV:
		y := b.(*StrV)
		if len(x.b) != len(y.b) {
			return false
		}
		for i := range x.b {
			if !x.b[i].IsConst() || !y.b[i].IsConst() {
				panic(unsupported("symbolic map key (string)"))
			}
			if x.b[i] != y.b[i] {
				return false
			}
		}
		return true
	}
	panic(unsupported(fmt.Sprintf("map key %T", a)))
}

func (e *Engine) lookup(f *frame, in *ssa.Lookup) Value {
	switch x := e.get(f, in.X).(type) {
	case *StrV:
		return e.indexSeq(f, in, len(x.b), func(i int) Value { return x.b[i] }, e.term(e.get(f, in.Index)), isSigned(in.Index.Type()))
	case *MapV:
		k := e.get(f, in.Index)
		vt := in.X.Type().Underlying().(*types.Map).Elem()
		var val Value
		found := false
		if x.m != nil {
			for _, en := range x.m.ents {
				if e.concEq(en.k, k) {
					val, found = en.v, true
					break
				}
			}
		}
		if !found {
			val = e.zero(vt)
		}
		if in.CommaOk {
			return Tuple{val, e.b.Bool(found)}
		}
		return val
	}
	panic(unsupported("lookup"))
}

// read element at possibly symbolic index from a sequence of n scalar values
func (e *Engine) indexSeq(f *frame, ins ssa.Instruction, n int, at func(int) Value, idx *Term, sg bool) Value {
	if idx.IsConst() {
		var i int
		if sg {
			i = int(idx.ConstS())
		} else {
			i = int(idx.ConstU())
		}
		if i < 0 || i >= n {
			e.x.goPanic(f.fn, ins, fmt.Sprintf("index out of range [%d] with length %d", i, n))
		}
		return at(i)
	}
	w := idx.sort.W
	inb := e.b.Bin(OBvULT, idx, e.b.BVu(uint64(n), w)) // negative signed values are huge unsigned
	e.x.checkPanic(e.b.Not(inb), f.fn, ins, "index out of range (symbolic)")
	if n > 300 {
		i := e.x.concretize(idx, sg, "index", n)
		return at(i)
	}
	var r *Term
	for i := n - 1; i >= 0; i-- {
		v := e.term(at(i))
		if r == nil {
			r = v
		} else {
			r = e.b.Ite(e.b.Eq(idx, e.b.BVu(uint64(i), w)), v, r)
		}
	}
	if r == nil {
		panic(pathEnd{"index into empty"})
	}
	return r
}

func (e *Engine) indexAddr(f *frame, in *ssa.IndexAddr) Value {
	idx := e.term(e.get(f, in.Index))
	sg := isSigned(in.Index.Type())
	var base *Slot
	off, n := 0, 0
	switch x := e.get(f, in.X).(type) {
	case *Ptr:
		if x.s == nil {
			e.x.goPanic(f.fn, in, "nil dereference (indexaddr)")
		}
		base, n = x.s, len(x.s.kids)
	case *SliceV:
		base, off, n = x.arr, x.off, x.len
	}
	var i int
	if idx.IsConst() {
		if sg {
			i = int(idx.ConstS())
		} else {
			i = int(idx.ConstU())
		}
		if i < 0 || i >= n {
			e.x.goPanic(f.fn, in, fmt.Sprintf("index out of range [%d] with length %d", i, n))
		}
	} else {
		w := idx.sort.W
		inb := e.b.Bin(OBvULT, idx, e.b.BVu(uint64(n), w))
		e.x.checkPanic(e.b.Not(inb), f.fn, in, "index out of range (symbolic)")
		if n <= 64 && n > 0 {
			return &SymPtr{base: base, off: off, n: n, idx: idx}
		}
		i = e.x.concretize(idx, sg, "indexaddr", n)
	}
	return &Ptr{base.kids[off+i]}
}

func (e *Engine) index(f *frame, in *ssa.Index) Value {
	idx := e.term(e.get(f, in.Index))
	switch x := e.get(f, in.X).(type) {
	case *ArrayV:
		return e.indexSeq(f, in, len(x.e), func(i int) Value { return x.e[i] }, idx, isSigned(in.Index.Type()))
	case *StrV:
		return e.indexSeq(f, in, len(x.b), func(i int) Value { return x.b[i] }, idx, isSigned(in.Index.Type()))
	}
	panic(unsupported("index"))
}

func (e *Engine) slice(f *frame, in *ssa.Slice) Value {
	bound := func(v ssa.Value, def int) int {
		if v == nil {
			return def
		}
		return e.concInt(e.term(e.get(f, v)), true, "slice bound", 1<<20)
	}
	switch x := e.get(f, in.X).(type) {
	case *StrV:
		lo, hi := bound(in.Low, 0), bound(in.High, len(x.b))
		if lo < 0 || hi > len(x.b) || lo > hi {
			e.x.goPanic(f.fn, in, fmt.Sprintf("slice bounds out of range [%d:%d] len %d", lo, hi, len(x.b)))
		}
		return &StrV{b: x.b[lo:hi]}
	case *SliceV:
		lo, hi := bound(in.Low, 0), bound(in.High, x.len)
		mx := bound(in.Max, x.cap)
		if lo < 0 || hi > x.cap || lo > hi || mx > x.cap || hi > mx {
			e.x.goPanic(f.fn, in, fmt.Sprintf("slice bounds out of range [%d:%d] cap %d", lo, hi, x.cap))
		}
		if x.arr == nil {
			return &SliceV{}
		}
		return &SliceV{arr: x.arr, off: x.off + lo, len: hi - lo, cap: mx - lo}
	case *Ptr: // pointer to array
		if x.s == nil {
			e.x.goPanic(f.fn, in, "nil dereference (slice)")
		}
		n := len(x.s.kids)
		lo, hi := bound(in.Low, 0), bound(in.High, n)
		mx := bound(in.Max, n)
		if lo < 0 || hi > n || lo > hi || mx > n || hi > mx {
			e.x.goPanic(f.fn, in, fmt.Sprintf("slice bounds out of range [%d:%d] len %d", lo, hi, n))
		}
		return &SliceV{arr: x.s, off: lo, len: hi - lo, cap: mx - lo}
	}
	panic(unsupported("slice of " + in.X.Type().String()))
}

func (e *Engine) typeAssert(f *frame, in *ssa.TypeAssert) Value {
	x := e.get(f, in.X).(*Iface)
	ok := false
	var res Value
	if x.t != nil {
		if it, isI := in.AssertedType.Underlying().(*types.Interface); isI {
			ok = types.Implements(x.t, it)
			res = x
		} else {
			ok = types.Identical(x.t, in.AssertedType)
			res = x.v
		}
	}
	if in.CommaOk {
		if !ok {
			if _, isI := in.AssertedType.Underlying().(*types.Interface); isI {
				res = &Iface{}
			} else {
				res = e.zero(in.AssertedType)
			}
		}
		return Tuple{res, e.b.Bool(ok)}
	}
	if !ok {
		e.x.goPanic(f.fn, in, "interface conversion failed")
	}
	return res
}

func (e *Engine) callArgs(f *frame, c *ssa.CallCommon) []Value {
	var args []Value
	for _, a := range c.Args {
		args = append(args, e.get(f, a))
	}
	return args
}

func (e *Engine) calleeOf(f *frame, c *ssa.CallCommon, args *[]Value) *FuncV {
	if c.IsInvoke() {
		recv := e.get(f, c.Value).(*Iface)
		if recv.t == nil {
			e.x.goPanic(f.fn, nil, "nil interface method call "+c.Method.Name())
		}
		m := e.prog.LookupMethod(recv.t, c.Method.Pkg(), c.Method.Name())
		if m == nil {
			panic(unsupported("method not found " + c.Method.Name() + " on " + recv.t.String()))
		}
		*args = append([]Value{recv.v}, *args...)
		return &FuncV{fn: m}
	}
	return e.get(f, c.Value).(*FuncV)
}

func (e *Engine) invoke(fv *FuncV, args []Value) Value {
	if fv.bi != nil {
		panic(unsupported("deferred builtin"))
	}
	if fv.fn == nil {
		e.x.goPanic(nil, nil, "call of nil func")
	}
	return e.call(fv.fn, args, fv.free)
}

func (e *Engine) doCall(f *frame, ins ssa.Instruction, c *ssa.CallCommon) Value {
	args := e.callArgs(f, c)
	if bi, ok := c.Value.(*ssa.Builtin); ok {
		return e.builtin(f, ins, bi, c, args)
	}
	fv := e.calleeOf(f, c, &args)
	return e.invoke(fv, args)
}

func (e *Engine) builtin(f *frame, ins ssa.Instruction, bi *ssa.Builtin, c *ssa.CallCommon, args []Value) Value {
	switch bi.Name() {
	case "len":
		switch x := args[0].(type) {
		case *SliceV:
			return e.b.BVi(int64(x.len), 64)
		case *StrV:
			return e.b.BVi(int64(len(x.b)), 64)
		case *ArrayV:
			return e.b.BVi(int64(len(x.e)), 64)
		case *MapV:
			if x.m == nil {
				return e.b.BVi(0, 64)
			}
			return e.b.BVi(int64(len(x.m.ents)), 64)
		case *Ptr:
			return e.b.BVi(int64(len(x.s.kids)), 64)
		}
	case "cap":
		switch x := args[0].(type) {
		case *SliceV:
			return e.b.BVi(int64(x.cap), 64)
		}
	case "append":
		s := args[0].(*SliceV)
		var add []Value
		switch t := args[1].(type) {
		case *SliceV:
			for i := 0; i < t.len; i++ {
				add = append(add, e.load(t.arr.kids[t.off+i]))
			}
		case *StrV:
			for _, b := range t.b {
				add = append(add, b)
			}
		}
		if len(add) == 0 {
			return s
		}
		el := c.Args[0].Type().Underlying().(*types.Slice).Elem()
		if s.len+len(add) <= s.cap {
			for i, v := range add {
				e.store(s.arr.kids[s.off+s.len+i], v)
			}
			return &SliceV{arr: s.arr, off: s.off, len: s.len + len(add), cap: s.cap}
		}
		ncap := s.cap * 2
		if ncap < s.len+len(add) {
			ncap = s.len + len(add)
		}
		na := e.newArraySlot(el, ncap)
		for i := 0; i < s.len; i++ {
			e.store(na.kids[i], e.load(s.arr.kids[s.off+i]))
		}
		for i, v := range add {
			e.store(na.kids[s.len+i], v)
		}
		return &SliceV{arr: na, len: s.len + len(add), cap: ncap}
	case "String": // unsafe.String(ptr, len)
		n := e.concInt(e.term(args[1]), true, "unsafe.String len", 1<<16)
		r := &StrV{}
		if n == 0 {
			return r
		}
		p := args[0].(*Ptr)
		for i := 0; i < n; i++ {
			r.b = append(r.b, e.term(p.s.parent.kids[p.s.pidx+i].val))
		}
		return r
	case "SliceData":
		sl := args[0].(*SliceV)
		if sl.arr == nil || sl.cap == 0 {
			return &Ptr{}
		}
		return &Ptr{sl.arr.kids[sl.off]}
	case "StringData":
		st := args[0].(*StrV)
		if len(st.b) == 0 {
			return &Ptr{}
		}
		arr := e.newArraySlot(types.Typ[types.Uint8], len(st.b))
		for i, c := range st.b {
			arr.kids[i].val = c
		}
		return &Ptr{arr.kids[0]}
	case "min", "max":
		r := e.term(args[0])
		sg := isSigned(c.Args[0].Type())
		for _, a := range args[1:] {
			t := e.term(a)
			op := OBvULT
			if sg {
				op = OBvSLT
			}
			lt := e.b.Bin(op, t, r)
			if bi.Name() == "max" {
				lt = e.b.Bin(op, r, t)
			}
			r = e.b.Ite(lt, t, r)
		}
		return r
	case "copy":
		d := args[0].(*SliceV)
		var src []Value
		switch t := args[1].(type) {
		case *SliceV:
			for i := 0; i < t.len; i++ {
				src = append(src, e.load(t.arr.kids[t.off+i]))
			}
		case *StrV:
			for _, b := range t.b {
				src = append(src, b)
			}
		}
		n := len(src)
		if d.len < n {
			n = d.len
		}
		for i := 0; i < n; i++ {
			e.store(d.arr.kids[d.off+i], src[i])
		}
		return e.b.BVi(int64(n), 64)
	}
	panic(unsupported("builtin " + bi.Name()))
}

func (e *Engine) unop(f *frame, in *ssa.UnOp) Value {
	x := e.get(f, in.X)
	switch in.Op {
	case token.MUL:
		if sp, ok := x.(*SymPtr); ok {
			var r *Term
			for i := sp.n - 1; i >= 0; i-- {
				v := e.term(e.load(sp.base.kids[sp.off+i]))
				if r == nil {
					r = v
				} else {
					r = e.b.Ite(e.b.Eq(sp.idx, e.b.BVu(uint64(i), sp.idx.sort.W)), v, r)
				}
			}
			return r
		}
		p := x.(*Ptr)
		if p.s == nil {
			e.x.goPanic(f.fn, in, "nil dereference (load)")
		}
		return e.load(p.s)
	case token.NOT:
		return e.b.Not(e.term(x))
	case token.SUB:
		return e.b.Neg(e.term(x))
	case token.XOR:
		return e.b.BvNot(e.term(x))
	}
	panic(unsupported("unop " + in.Op.String()))
}

func (e *Engine) convert(f *frame, in *ssa.Convert) Value {
	x := e.get(f, in.X)
	from, to := in.X.Type().Underlying(), in.Type().Underlying()
	if tb, ok := to.(*types.Basic); ok {
		if fb, ok := from.(*types.Basic); ok {
			if tb.Info()&types.IsInteger != 0 && fb.Info()&types.IsInteger != 0 {
				t := e.term(x)
				w := intWidth(tb)
				if isSigned(from) {
					return e.b.SExt(t, w)
				}
				return e.b.ZExt(t, w)
			}
			if tb.Info()&types.IsString != 0 && fb.Info()&types.IsInteger != 0 {
				t := e.term(x)
				if t.IsConst() && t.ConstU() < 0x80 {
					return &StrV{b: []*Term{e.b.BVu(t.ConstU(), 8)}}
				}
				panic(unsupported("string(rune) symbolic"))
			}
			if tb.Kind() == types.UnsafePointer || fb.Kind() == types.UnsafePointer {
				return x
			}
		}
		if tb.Info()&types.IsString != 0 {
			if s, ok := x.(*SliceV); ok { // string([]byte)
				r := &StrV{}
				for i := 0; i < s.len; i++ {
					r.b = append(r.b, e.term(e.load(s.arr.kids[s.off+i])))
				}
				return r
			}
		}
	}
	if ts, ok := to.(*types.Slice); ok {
		if s, ok := x.(*StrV); ok { // []byte(string)
			arr := e.newArraySlot(ts.Elem(), len(s.b))
			for i, b := range s.b {
				arr.kids[i].val = b
			}
			return &SliceV{arr: arr, len: len(s.b), cap: len(s.b)}
		}
	}
	if _, ok := to.(*types.Pointer); ok {
		return x
	}
	panic(unsupported(fmt.Sprintf("convert %v -> %v", in.X.Type(), in.Type())))
}

func (e *Engine) binop(f *frame, in *ssa.BinOp) Value {
	x, y := e.get(f, in.X), e.get(f, in.Y)
	b := e.b
	switch xv := x.(type) {
	case *Term:
		yt := e.term(y)
		if xv.sort.K == SBool {
			switch in.Op {
			case token.EQL:
				return b.Eq(xv, yt)
			case token.NEQ:
				return b.Not(b.Eq(xv, yt))
			case token.AND:
				return b.And(xv, yt)
			case token.OR:
				return b.Or(xv, yt)
			}
			panic(unsupported("bool binop " + in.Op.String()))
		}
		sg := isSigned(in.X.Type())
		w := xv.sort.W
		switch in.Op {
		case token.SHL, token.SHR:
			// normalise shift count to width w
			cnt := yt
			var big *Term // cnt >= w
			if cnt.sort.W > w {
				big = b.Not(b.Bin(OBvULT, cnt, b.BVu(uint64(w), cnt.sort.W)))
				cnt = b.Extract(cnt, w-1, 0)
			} else {
				cnt = b.ZExt(cnt, w)
				big = b.Bool(false)
			}
			if isSigned(in.Y.Type()) {
				neg := b.Bin(OBvSLT, yt, b.BVu(0, yt.sort.W))
				e.x.checkPanic(neg, f.fn, in, "negative shift amount")
			}
			var r *Term
			switch {
			case in.Op == token.SHL:
				r = b.Ite(big, b.BVu(0, w), b.Bin(OBvShl, xv, cnt))
			case sg:
				r = b.Ite(big, b.Bin(OBvAShr, xv, b.BVu(uint64(w-1), w)), b.Bin(OBvAShr, xv, cnt))
			default:
				r = b.Ite(big, b.BVu(0, w), b.Bin(OBvLShr, xv, cnt))
			}
			return r
		}
		ops := map[token.Token][2]Op{
			token.ADD: {OBvAdd, OBvAdd}, token.SUB: {OBvSub, OBvSub}, token.MUL: {OBvMul, OBvMul},
			token.QUO: {OBvUDiv, OBvSDiv}, token.REM: {OBvURem, OBvSRem},
			token.AND: {OBvAnd, OBvAnd}, token.OR: {OBvOr, OBvOr}, token.XOR: {OBvXor, OBvXor},
			token.LSS: {OBvULT, OBvSLT}, token.LEQ: {OBvULE, OBvSLE},
		}
		si := 0
		if sg {
			si = 1
		}
		switch in.Op {
		case token.QUO, token.REM:
			e.x.checkPanic(b.Eq(yt, b.BVu(0, w)), f.fn, in, "integer divide by zero")
			return b.Bin(ops[in.Op][si], xv, yt)
		case token.ADD, token.SUB, token.MUL, token.AND, token.OR, token.XOR, token.LSS, token.LEQ:
			return b.Bin(ops[in.Op][si], xv, yt)
		case token.AND_NOT:
			return b.Bin(OBvAnd, xv, b.BvNot(yt))
		case token.GTR:
			return b.Bin(ops[token.LSS][si], yt, xv)
		case token.GEQ:
			return b.Bin(ops[token.LEQ][si], yt, xv)
		case token.EQL:
			return b.Eq(xv, yt)
		case token.NEQ:
			return b.Not(b.Eq(xv, yt))
		}
	case *StrV:
		yv := y.(*StrV)
		switch in.Op {
		case token.ADD:
			return &StrV{b: append(append([]*Term{}, xv.b...), yv.b...)}
		case token.EQL, token.NEQ:
			var r *Term
			if len(xv.b) != len(yv.b) {
				r = b.Bool(false)
			} else {
				r = b.Bool(true)
				for i := range xv.b {
					r = b.And(r, b.Eq(xv.b[i], yv.b[i]))
				}
			}
			if in.Op == token.NEQ {
				r = b.Not(r)
			}
			return r
		}
	case *Ptr:
		yv := y.(*Ptr)
		eq := xv.s == yv.s
		if in.Op == token.NEQ {
			eq = !eq
		}
		return b.Bool(eq)
	case *Iface:
		yv := y.(*Iface)
		eq := false
		if xv.t == nil || yv.t == nil {
			eq = xv.t == nil && yv.t == nil
		} else if types.Identical(xv.t, yv.t) {
			switch a := xv.v.(type) {
			case *Ptr:
				eq = a.s == yv.v.(*Ptr).s
			case *Term:
				t := b.Eq(a, yv.v.(*Term))
				if in.Op == token.NEQ {
					t = b.Not(t)
				}
				return t
			default:
				panic(unsupported("interface compare of " + xv.t.String()))
			}
		}
		if in.Op == token.NEQ {
			eq = !eq
		}
		return b.Bool(eq)
	case *SliceV:
		// only comparison with nil
		yv := y.(*SliceV)
		eq := xv.arr == nil && yv.arr == nil
		if in.Op == token.NEQ {
			eq = !eq
		}
		return b.Bool(eq)
	case *MapV:
		yv := y.(*MapV)
		eq := xv.m == nil && yv.m == nil
		if in.Op == token.NEQ {
			eq = !eq
		}
		return b.Bool(eq)
	case *FuncV:
		eq := xv.fn == nil && xv.bi == nil
		if in.Op == token.NEQ {
			eq = !eq
		}
		return b.Bool(eq)
	}
	panic(unsupported(fmt.Sprintf("binop %s on %T (%s)", in.Op, x, strings.TrimSpace(in.String()))))
}
