package main

// reflect-lite: a model of the part of package reflect that ion/unmarshal.go uses for SCALAR targets (all integer
// widths, floats, bool, string, []byte, interface{}, pointers to them). reflect itself cannot be lowered from go/ssa
// (runtime type descriptors, unsafe); here a reflect.Value is an engine object that refers to the interpreter's own
// storage slot of the target variable together with its static go/types type, so Kind/Type/Elem/IsNil/CanSet come
// from go/types, Set* are stores with Go's truncation, and Overflow* follow their documented meaning for the bit
// size. reflect is environment in the harnesses that use it (C17); unmarshal.go is the code under test. Composite
// targets (structs, maps, slices of non-bytes, arrays) are outside: reaching them ends the path as `unsupported`.

import (
	"fmt"
	"go/types"
	"math"
)

type ReflVal struct {
	typ    types.Type
	slot   *Slot // addressable storage (settable); nil for plain values
	val    Value // value when not addressable
	canSet bool
	ro     bool // reached through an unexported non-embedded struct field (sticky: Interface / Set panic, as in package reflect)
	ero    bool // is an unexported embedded field itself (not inherited by its fields)
}

type ReflType struct{ typ types.Type }

var reflTypeMarker = types.NewNamed(types.NewTypeName(0, nil, "reflect.rtype(model)", nil), types.NewStruct(nil, nil), nil)

func (e *Engine) reflTypeIface(t types.Type) *Iface {
	return &Iface{t: reflTypeMarker, v: &ReflType{t}}
}

func reflKind(t types.Type) uint64 {
	switch u := t.Underlying().(type) {
	case *types.Basic:
		switch u.Kind() {
		case types.Bool:
			return 1
		case types.Int:
			return 2
		case types.Int8:
			return 3
		case types.Int16:
			return 4
		case types.Int32:
			return 5
		case types.Int64:
			return 6
		case types.Uint:
			return 7
		case types.Uint8:
			return 8
		case types.Uint16:
			return 9
		case types.Uint32:
			return 10
		case types.Uint64:
			return 11
		case types.Uintptr:
			return 12
		case types.Float32:
			return 13
		case types.Float64:
			return 14
		case types.String:
			return 24
		case types.UnsafePointer:
			return 26
		}
	case *types.Array:
		return 17
	case *types.Chan:
		return 18
	case *types.Signature:
		return 19
	case *types.Interface:
		return 20
	case *types.Map:
		return 21
	case *types.Pointer:
		return 22
	case *types.Slice:
		return 23
	case *types.Struct:
		return 25
	}
	return 0
}

func (e *Engine) reflOf(v Value) *ReflVal {
	if r, ok := v.(*ReflVal); ok {
		return r
	}
	return nil // the zero reflect.Value (invalid)
}

func (e *Engine) reflGet(r *ReflVal) Value {
	if r.slot != nil {
		return e.load(r.slot)
	}
	return r.val
}

func (e *Engine) reflMust(v Value, what string) *ReflVal {
	r := e.reflOf(v)
	if r == nil {
		e.x.goPanic(nil, nil, "reflect: call of "+what+" on zero Value")
	}
	return r
}

func (e *Engine) reflSet(r *ReflVal, v Value, what string) {
	if r.slot == nil || !r.canSet {
		e.x.goPanic(nil, nil, "reflect: "+what+" using unaddressable value")
	}
	e.store(r.slot, v)
}

func init() {
	R := "(reflect.Value)."
	reg := func(n string, f intrinsicFn) { intrinsics[R+n] = f }
	used := func(e *Engine) { e.used("reflect (scalar targets) as reflect-lite over go/types and interpreter slots") }

	intrinsics["reflect.ValueOf"] = func(e *Engine, f *frame, a []Value) Value {
		used(e)
		i := a[0].(*Iface)
		if i.t == nil {
			return e.zeroReflValue()
		}
		return &ReflVal{typ: i.t, val: i.v}
	}
	intrinsics["reflect.TypeOf"] = func(e *Engine, f *frame, a []Value) Value {
		i := a[0].(*Iface)
		if i.t == nil {
			return nilIface
		}
		return e.reflTypeIface(i.t)
	}
	intrinsics["reflect.Zero"] = func(e *Engine, f *frame, a []Value) Value {
		t := a[0].(*Iface).v.(*ReflType).typ
		return &ReflVal{typ: t, val: e.zero(t)}
	}
	intrinsics["reflect.New"] = func(e *Engine, f *frame, a []Value) Value {
		t := a[0].(*Iface).v.(*ReflType).typ
		return &ReflVal{typ: types.NewPointer(t), val: &Ptr{e.newSlot(t)}}
	}
	reg("IsValid", func(e *Engine, f *frame, a []Value) Value { return e.b.Bool(e.reflOf(a[0]) != nil) })
	reg("Kind", func(e *Engine, f *frame, a []Value) Value {
		r := e.reflOf(a[0])
		if r == nil {
			return e.b.BVu(0, 64)
		}
		return e.b.BVu(reflKind(r.typ), 64)
	})
	reg("Type", func(e *Engine, f *frame, a []Value) Value {
		return e.reflTypeIface(e.reflMust(a[0], "Type").typ)
	})
	reg("CanSet", func(e *Engine, f *frame, a []Value) Value {
		r := e.reflOf(a[0])
		return e.b.Bool(r != nil && r.slot != nil && r.canSet)
	})
	reg("CanAddr", func(e *Engine, f *frame, a []Value) Value {
		r := e.reflOf(a[0])
		return e.b.Bool(r != nil && r.slot != nil)
	})
	reg("IsNil", func(e *Engine, f *frame, a []Value) Value {
		r := e.reflMust(a[0], "IsNil")
		switch v := e.reflGet(r).(type) {
		case *Ptr:
			return e.b.Bool(v.s == nil)
		case *Iface:
			return e.b.Bool(v.t == nil)
		case *SliceV:
			return e.b.Bool(v.arr == nil)
		case *MapV:
			return e.b.Bool(v.m == nil)
		case *FuncV:
			return e.b.Bool(v.fn == nil && v.bi == nil)
		}
		e.x.goPanic(nil, nil, "reflect: call of IsNil on "+r.typ.String())
		return nil
	})
	reg("Elem", func(e *Engine, f *frame, a []Value) Value {
		r := e.reflMust(a[0], "Elem")
		switch v := e.reflGet(r).(type) {
		case *Ptr:
			if v.s == nil {
				return e.zeroReflValue()
			}
			return &ReflVal{typ: r.typ.Underlying().(*types.Pointer).Elem(), slot: v.s, canSet: true}
		case *Iface:
			if v.t == nil {
				return e.zeroReflValue()
			}
			return &ReflVal{typ: v.t, val: v.v}
		}
		e.x.goPanic(nil, nil, "reflect: call of Elem on "+r.typ.String())
		return nil
	})
	reg("NumMethod", func(e *Engine, f *frame, a []Value) Value {
		r := e.reflMust(a[0], "NumMethod")
		if it, ok := r.typ.Underlying().(*types.Interface); ok {
			return e.b.BVi(int64(it.NumMethods()), 64)
		}
		return e.b.BVi(int64(e.prog.MethodSets.MethodSet(r.typ).Len()), 64)
	})
	reg("Interface", func(e *Engine, f *frame, a []Value) Value {
		r := e.reflMust(a[0], "Interface")
		if r.ro || r.ero {
			e.x.goPanic(nil, nil, "reflect.Value.Interface: cannot return value obtained from unexported field or method")
		}
		v := e.reflGet(r)
		if i, ok := v.(*Iface); ok {
			return i
		}
		return &Iface{t: r.typ, v: v}
	})
	reg("Set", func(e *Engine, f *frame, a []Value) Value {
		r := e.reflMust(a[0], "Set")
		x := e.reflMust(a[1], "Set")
		xv := e.reflGet(x)
		if _, isIface := r.typ.Underlying().(*types.Interface); isIface {
			if _, already := xv.(*Iface); !already {
				xv = &Iface{t: x.typ, v: xv}
			}
		} else if !types.AssignableTo(x.typ, r.typ) {
			e.x.goPanic(nil, nil, fmt.Sprintf("reflect.Set: value of type %v is not assignable to type %v", x.typ, r.typ))
		}
		e.reflSet(r, xv, "Set")
		return nil
	})
	intWidthOf := func(t types.Type) int {
		b, ok := t.Underlying().(*types.Basic)
		if !ok {
			return 0
		}
		return intWidth(b)
	}
	reg("SetInt", func(e *Engine, f *frame, a []Value) Value {
		r := e.reflMust(a[0], "SetInt")
		k := reflKind(r.typ)
		if k < 2 || k > 6 {
			e.x.goPanic(nil, nil, "reflect: call of SetInt on "+r.typ.String())
		}
		e.reflSet(r, e.b.Extract(e.term(a[1]), intWidthOf(r.typ)-1, 0), "SetInt")
		return nil
	})
	reg("SetUint", func(e *Engine, f *frame, a []Value) Value {
		r := e.reflMust(a[0], "SetUint")
		k := reflKind(r.typ)
		if k < 7 || k > 12 {
			e.x.goPanic(nil, nil, "reflect: call of SetUint on "+r.typ.String())
		}
		e.reflSet(r, e.b.Extract(e.term(a[1]), intWidthOf(r.typ)-1, 0), "SetUint")
		return nil
	})
	reg("SetFloat", func(e *Engine, f *frame, a []Value) Value {
		r := e.reflMust(a[0], "SetFloat")
		switch reflKind(r.typ) {
		case 13:
			e.reflSet(r, e.b.FpCvt(e.term(a[1]), 32), "SetFloat")
		case 14:
			e.reflSet(r, a[1], "SetFloat")
		default:
			e.x.goPanic(nil, nil, "reflect: call of SetFloat on "+r.typ.String())
		}
		return nil
	})
	reg("SetBool", func(e *Engine, f *frame, a []Value) Value {
		r := e.reflMust(a[0], "SetBool")
		if reflKind(r.typ) != 1 {
			e.x.goPanic(nil, nil, "reflect: call of SetBool on "+r.typ.String())
		}
		e.reflSet(r, a[1], "SetBool")
		return nil
	})
	reg("SetString", func(e *Engine, f *frame, a []Value) Value {
		r := e.reflMust(a[0], "SetString")
		if reflKind(r.typ) != 24 {
			e.x.goPanic(nil, nil, "reflect: call of SetString on "+r.typ.String())
		}
		e.reflSet(r, a[1], "SetString")
		return nil
	})
	reg("SetBytes", func(e *Engine, f *frame, a []Value) Value {
		r := e.reflMust(a[0], "SetBytes")
		if reflKind(r.typ) != 23 {
			e.x.goPanic(nil, nil, "reflect: call of SetBytes on "+r.typ.String())
		}
		e.reflSet(r, a[1], "SetBytes")
		return nil
	})
	reg("OverflowInt", func(e *Engine, f *frame, a []Value) Value {
		r := e.reflMust(a[0], "OverflowInt")
		k := reflKind(r.typ)
		if k < 2 || k > 6 {
			e.x.goPanic(nil, nil, "reflect: call of OverflowInt on "+r.typ.String())
		}
		w := intWidthOf(r.typ)
		x := e.term(a[1])
		if w == 64 {
			return e.b.ff
		}
		return e.b.Not(e.b.Eq(e.b.SExt(e.b.Extract(x, w-1, 0), 64), x))
	})
	reg("OverflowUint", func(e *Engine, f *frame, a []Value) Value {
		r := e.reflMust(a[0], "OverflowUint")
		k := reflKind(r.typ)
		if k < 7 || k > 12 {
			e.x.goPanic(nil, nil, "reflect: call of OverflowUint on "+r.typ.String())
		}
		w := intWidthOf(r.typ)
		x := e.term(a[1])
		if w == 64 {
			return e.b.ff
		}
		return e.b.Not(e.b.Eq(e.b.ZExt(e.b.Extract(x, w-1, 0), 64), x))
	})
	reg("OverflowFloat", func(e *Engine, f *frame, a []Value) Value {
		r := e.reflMust(a[0], "OverflowFloat")
		x := e.term(a[1])
		switch reflKind(r.typ) {
		case 13:
			// documented: true if the float64 x cannot be represented by float32: MaxFloat32 < |x| <= MaxFloat64
			abs := e.b.Bin(OBvAnd, x, e.b.BVu(0x7FFFFFFFFFFFFFFF, 64))
			return e.b.And(e.b.FpCmp(OFpLt, e.b.BVu(math.Float64bits(math.MaxFloat32), 64), abs),
				e.b.FpCmp(OFpLe, abs, e.b.BVu(math.Float64bits(math.MaxFloat64), 64)))
		case 14:
			return e.b.ff
		}
		e.x.goPanic(nil, nil, "reflect: call of OverflowFloat on "+r.typ.String())
		return nil
	})
}

func (e *Engine) zeroReflValue() Value {
	for _, p := range e.prog.AllPackages() {
		if p.Pkg.Path() == "reflect" {
			return e.zero(p.Pkg.Scope().Lookup("Value").Type())
		}
	}
	panic(unsupported("reflect not loaded"))
}

// reflTypeMethod dispatches a method call on a modelled reflect.Type.
func (e *Engine) reflTypeMethod(rt *ReflType, name string, args []Value) Value {
	if v, ok := e.reflTypeMethod2(rt, name, args); ok {
		return v
	}
	switch name {
	case "Kind":
		return e.b.BVu(reflKind(rt.typ), 64)
	case "Elem":
		switch u := rt.typ.Underlying().(type) {
		case *types.Pointer:
			return e.reflTypeIface(u.Elem())
		case *types.Slice:
			return e.reflTypeIface(u.Elem())
		case *types.Array:
			return e.reflTypeIface(u.Elem())
		case *types.Map:
			return e.reflTypeIface(u.Elem())
		}
		e.x.goPanic(nil, nil, "reflect: Elem of invalid type "+rt.typ.String())
	case "String", "Name":
		return e.strConst(rt.typ.String())
	case "NumMethod":
		if it, ok := rt.typ.Underlying().(*types.Interface); ok {
			return e.b.BVi(int64(it.NumMethods()), 64)
		}
		return e.b.BVi(int64(e.prog.MethodSets.MethodSet(rt.typ).Len()), 64)
	}
	panic(unsupported("reflect.Type." + name + " (outside the reflect-lite model)"))
}
