package ion

import "math"

func vf64bits(f float64) uint64     { return math.Float64bits(f) }
func vf64frombits(u uint64) float64 { return math.Float64frombits(u) }
