#!/bin/sh
# usage: failing_tests.sh <repo-dir>  — prints the sorted list of failing test names of the module's suite
cd "$1" || exit 2
export GOFLAGS=-mod=mod GOPROXY=off GOSUMDB=off GOTOOLCHAIN=local
go test -json -vet=off -count=1 -timeout 25m ./... 2>/dev/null | python3 -c '
import sys,json
f=set()
for l in sys.stdin:
    try: d=json.loads(l)
    except Exception: continue
    if d.get("Action")=="fail": f.add(d.get("Package","")+"::"+d.get("Test","<pkg>"))
print("\n".join(sorted(f)))'
