package main

// One long-lived SMT-LIB2 solver process per worker (z3 -in). No set-logic (see DESIGN §2.3);
// any "(error" line makes the query inconclusive.

import (
	"bufio"
	"fmt"
	"io"
	"math/big"
	"os/exec"
	"strings"
	"time"
)

type Solver struct {
	cmd      *exec.Cmd
	in       *bufio.Writer
	inc      io.WriteCloser
	out      *bufio.Reader
	depth    int
	Queries  int
	Sat      int
	Unsat    int
	Unk      int
	Errors   int
	Time     time.Duration
	declared map[string]bool
	log      io.Writer
	emitted  map[int]bool
	dead     bool
}

func NewSolver(bin string, timeoutMs int) (*Solver, error) {
	var cmd *exec.Cmd
	switch {
	case strings.Contains(bin, "cvc5"):
		cmd = exec.Command(bin, "--incremental", "--produce-models", fmt.Sprintf("--tlimit-per=%d", timeoutMs), "--lang=smt2")
	default:
		cmd = exec.Command(bin, "-in", fmt.Sprintf("-t:%d", timeoutMs))
	}
	in, _ := cmd.StdinPipe()
	out, _ := cmd.StdoutPipe()
	cmd.Stderr = cmd.Stdout
	if err := cmd.Start(); err != nil {
		return nil, err
	}
	s := &Solver{cmd: cmd, inc: in, in: bufio.NewWriterSize(in, 1<<16), out: bufio.NewReader(out), declared: map[string]bool{}, emitted: map[int]bool{}}
	s.send("(set-option :global-declarations true)")
	s.send("(set-option :produce-models true)")
	return s, nil
}

func (s *Solver) send(line string) {
	if s.log != nil {
		fmt.Fprintln(s.log, line)
	}
	s.in.WriteString(line)
	s.in.WriteByte('\n')
}

// emit makes sure t and all its sub-terms are defined in the solver.
func (s *Solver) emit(t *Term) {
	if t.op == OConst || s.emitted[t.id] {
		return
	}
	type fr struct {
		t *Term
		i int
	}
	st := []fr{{t, 0}}
	for len(st) > 0 {
		f := &st[len(st)-1]
		if f.t.op == OConst || s.emitted[f.t.id] {
			st = st[:len(st)-1]
			continue
		}
		if f.i < len(f.t.args) {
			a := f.t.args[f.i]
			f.i++
			if a.op != OConst && !s.emitted[a.id] {
				st = append(st, fr{a, 0})
			}
			continue
		}
		x := f.t
		switch x.op {
		case OVar:
			if !s.declared[x.name] {
				s.declared[x.name] = true
				s.send(fmt.Sprintf("(declare-const %s %s)", x.name, x.sort))
			}
		default:
			s.send(fmt.Sprintf("(define-fun t%d () %s %s)", x.id, x.sort, x.body()))
		}
		s.emitted[x.id] = true
		st = st[:len(st)-1]
	}
}

func (s *Solver) Push() { s.send("(push 1)"); s.depth++ }
func (s *Solver) Pop(n int) {
	if n <= 0 {
		return
	}
	s.send(fmt.Sprintf("(pop %d)", n))
	s.depth -= n
}
func (s *Solver) Assert(t *Term) {
	s.emit(t)
	s.send("(assert " + t.ref() + ")")
}

func (s *Solver) readLine() string {
	s.in.Flush()
	l, err := s.out.ReadString('\n')
	if err != nil {
		s.dead = true
		return "(error \"solver died: " + err.Error() + "\")"
	}
	return strings.TrimSpace(l)
}

// Check returns "sat", "unsat", or "unknown" (incl. any error line).
func (s *Solver) Check() string {
	t0 := time.Now()
	s.send("(check-sat)")
	r := s.readLine()
	for strings.HasPrefix(r, "(error") || strings.HasPrefix(r, "WARNING") || r == "" {
		if strings.HasPrefix(r, "(error") {
			s.Errors++
			fmt.Println("SOLVER ERROR:", r)
			if s.dead {
				s.Queries++
				s.Unk++
				return "unknown"
			}
			// the check-sat answer still follows; consume it and report inconclusive
			r2 := s.readLine()
			_ = r2
			s.Queries++
			s.Unk++
			s.Time += time.Since(t0)
			return "unknown"
		}
		r = s.readLine()
	}
	s.Queries++
	s.Time += time.Since(t0)
	switch r {
	case "sat":
		s.Sat++
	case "unsat":
		s.Unsat++
	default:
		s.Unk++
		return "unknown"
	}
	return r
}

// Model returns values for the given variables (must be called right after a sat Check).
func (s *Solver) Model(vars []*Term) *Model {
	m := &Model{bv: map[string]uint64{}, ints: map[string]*big.Int{}}
	if len(vars) == 0 {
		return m
	}
	var sb strings.Builder
	for _, v := range vars {
		s.emit(v) // a variable not yet mentioned in any assertion must still be declared (global declarations)
	}
	sb.WriteString("(get-value (")
	for _, v := range vars {
		sb.WriteString(v.name + " ")
	}
	sb.WriteString("))")
	s.send(sb.String())
	depth := 0
	var all strings.Builder
	for {
		l := s.readLine()
		if strings.HasPrefix(l, "(error") {
			s.Errors++
			fmt.Println("SOLVER ERROR (get-value):", l)
			return m
		}
		all.WriteString(l + " ")
		depth += strings.Count(l, "(") - strings.Count(l, ")")
		if depth <= 0 {
			break
		}
	}
	txt := strings.NewReplacer("(", " ( ", ")", " ) ").Replace(all.String())
	toks := strings.Fields(txt)
	// grammar: ( ( name value ) ... ), value = #x.. | #b.. | true | false | N | ( - N )
	for i := 0; i+2 < len(toks); i++ {
		if toks[i] != "(" || toks[i+1] == "(" || toks[i+1] == ")" {
			continue
		}
		name, val := toks[i+1], toks[i+2]
		switch {
		case strings.HasPrefix(val, "#x"):
			v, _ := new(big.Int).SetString(val[2:], 16)
			m.bv[name] = v.Uint64()
		case strings.HasPrefix(val, "#b"):
			v, _ := new(big.Int).SetString(val[2:], 2)
			m.bv[name] = v.Uint64()
		case val == "true":
			m.bv[name] = 1
		case val == "false":
			m.bv[name] = 0
		case val == "(" && i+4 < len(toks) && toks[i+3] == "-":
			v, ok := new(big.Int).SetString(toks[i+4], 10)
			if ok {
				m.ints[name] = v.Neg(v)
			}
		default:
			if v, ok := new(big.Int).SetString(val, 10); ok {
				m.ints[name] = v
			}
		}
	}
	return m
}

func (s *Solver) Close() {
	s.send("(exit)")
	s.in.Flush()
	s.inc.Close()
	s.cmd.Wait()
}
