package main

import (
	"golang.org/x/tools/go/ssa"
)

// initGlobals runs the package initialisers (dependencies first, each once) so that package-level tables are the
// real ones. Initialiser statements the interpreter cannot execute leave their targets zero; a harness that then
// depends on such a value ends in an `unsupported` path, never silently.
func (e *Engine) initGlobals() {
	e.inInit = true
	defer func() { e.inInit = false }()
	done := map[*ssa.Package]bool{}
	var visit func(p *ssa.Package)
	visit = func(p *ssa.Package) {
		if p == nil || done[p] {
			return
		}
		done[p] = true
		for _, imp := range p.Pkg.Imports() {
			visit(e.prog.Package(imp))
		}
		if skipInit[p.Pkg.Path()] {
			return
		}
		if fi := p.Func("init"); fi != nil {
			e.curInitPkg = p
			e.runInit(fi)
		}
	}
	visit(e.pkg)
}

// packages whose initialisers are irrelevant to the interpreted code (runtime internals, OS, reflection)
var skipInit = map[string]bool{
	"runtime": true, "os": true, "syscall": true, "reflect": true, "internal/reflectlite": true, "sync": true, "sync/atomic": true,
	"internal/poll": true, "internal/cpu": true, "internal/godebug": true, "internal/testlog": true, "internal/syscall/unix": true,
	"unsafe": true, "internal/bytealg": true, "internal/abi": true, "runtime/debug": true, "fmt": true, "log": true,
	"encoding/json": true, "flag": true, "math/rand": true, "internal/oserror": true, "io/fs": true, "path": true, "path/filepath": true,
	"internal/fmtsort": true, "internal/itoa": true, "internal/race": true, "internal/goos": true, "internal/goarch": true,
	"iter": true, "slices": true, "cmp": true, "maps": true, "internal/safefilepath": true, "internal/filepathlite": true,
	"internal/syscall/execenv": true, "io/ioutil": true, "os/signal": true, "context": true, "testing": true,
	"math/big": true, "encoding/hex": true, "hash": true, "hash/crc32": true, "compress/flate": true, "encoding/base32": true,
	"text/tabwriter": true, "regexp": true, "regexp/syntax": true, "internal/unsafeheader": true, "unique": true, "internal/weak": true,
	"internal/concurrent": true, "runtime/internal/sys": true, "internal/runtime/atomic": true,
}

func (e *Engine) runInit(fn *ssa.Function) {
	f := &frame{fn: fn, env: map[ssa.Value]Value{}}
	blk := fn.Blocks[0]
	var prev *ssa.BasicBlock
	for blk != nil {
		var next *ssa.BasicBlock
		for _, ins := range blk.Instrs {
			switch in := ins.(type) {
			case *ssa.If:
				c, ok := e.get(f, in.Cond).(*Term)
				if ok && c.IsConst() && c.ConstBool() {
					next = blk.Succs[0]
				} else {
					next = blk.Succs[1]
				}
			case *ssa.Jump:
				next = blk.Succs[0]
			case *ssa.Return:
				return
			case *ssa.Phi:
				for i, p := range blk.Preds {
					if p == prev {
						f.env[in] = e.get(f, in.Edges[i])
					}
				}
			case *ssa.Call:
				if cf, ok := in.Call.Value.(*ssa.Function); ok && cf.Name() == "init" && cf.Pkg != e.curInitPkg {
					continue // other package's init: handled by visit order
				}
				e.tryExec(f, ins)
			default:
				e.tryExec(f, ins)
			}
		}
		prev, blk = blk, next
	}
}

func (e *Engine) tryExec(f *frame, ins ssa.Instruction) {
	defer func() {
		if r := recover(); r != nil {
			e.depth = 0
			e.stack = e.stack[:0]
			if v, ok := ins.(ssa.Value); ok {
				f.env[v] = &Opaque{"init failure"}
			}
		}
	}()
	e.exec(f, ins)
}
