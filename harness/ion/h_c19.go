package ion

import "io"

// C19: results do not depend on I/O chunking; I/O failures are reported.
//
// The real bufio.Reader / bytes machinery of the Readers is executed symbolically over an io.Reader stub that
// delivers the document in chunks whose boundaries are solver variables (two arbitrary cut points => every single
// split point and every pair; or one byte per Read), optionally returning io.EOF together with the last bytes, and
// optionally failing with a non-EOF error at an arbitrary offset. Writers run over a sink that fails at an arbitrary
// Write call.

type vSrcErr struct{}

func (vSrcErr) Error() string { return "source failure" }

var vErrSrc error = vSrcErr{}

type vChunkSrc struct {
	data    []byte
	pos     int
	c1, c2  int  // cut points (mode 0)
	single  bool // one byte per Read
	eofData bool // return io.EOF together with the last bytes
	failAt  int  // offset at which Read fails with a non-EOF error; <0: never
	reads   int
}

func (s *vChunkSrc) Read(p []byte) (int, error) {
	s.reads++
	if s.reads > 64 {
		return 0, io.ErrNoProgress
	}
	if len(p) == 0 {
		return 0, nil
	}
	if s.failAt >= 0 && s.pos >= s.failAt {
		return 0, vErrSrc
	}
	rem := len(s.data) - s.pos
	if rem == 0 {
		return 0, io.EOF
	}
	n := rem
	if s.single {
		n = 1
	} else if s.pos < s.c1 {
		n = s.c1 - s.pos
	} else if s.pos < s.c2 {
		n = s.c2 - s.pos
	}
	if s.failAt >= 0 && s.pos+n > s.failAt {
		n = s.failAt - s.pos
	}
	if n > len(p) {
		n = len(p)
	}
	copy(p, s.data[s.pos:s.pos+n])
	s.pos += n
	if s.pos == len(s.data) && s.eofData && s.failAt < 0 {
		return n, io.EOF
	}
	return n, nil
}

// vC19Doc returns the document for param doc; X, Y are symbolic bytes placed at lookahead-sensitive spots.
func vC19Doc(doc int) []byte {
	x := vnondetU8()
	switch doc {
	case 0: // \r\n folding and long-string lookahead
		vassume(x == '\r' || x == '\n' || x == ' ' || x == 'a')
		return []byte{'"', 'a', '"', x, '\n', '\'', '\'', '\'', 'b', x, '\'', '\'', '\''}
	case 1: // +inf / numeric lookahead / comment start
		vassume(x == 'f' || x == 'g' || x == ' ' || x == '/' || x == '1')
		return []byte{'(', '+', 'i', 'n', x, ' ', '1', '/', '/', 'c', '\n', '2', ')'}
	case 2: // struct / lob opening, annotations
		vassume(x == '{' || x == ' ' || x == '"' || x == ':')
		return []byte{'a', ':', ':', '{', x, 'b', ':', '1', '}', ' ', '{', '{', 'Y', 'Q', '=', '=', '}', '}'}
	case 3: // binary: version marker, annotated value whose inner tag is peeked, container
		vassume(x == 0x21 || x == 0x20 || x == 0xB1 || x == 0x0F || x == 0x11)
		return []byte{0xE0, 0x01, 0x00, 0xEA, 0xE4, 0x81, 0x84, x, 0x07, 0xB2, 0x21, 0x01, 0x20}
	case 4: // binary: value spanning a skip, string, second version marker
		vassume(x <= 0x83 && x >= 0x80)
		return []byte{0xE0, 0x01, 0x00, 0xEA, x, 'a', 'b', 'c', 0xE0, 0x01, 0x00, 0xEA, 0x21, 0x05}
	case 6: // CR LF inside a long string and after a line continuation, where folding changes the value
		vassume(x == '\r' || x == 'a' || x == '\n')
		return []byte{'\'', '\'', '\'', 'a', x, '\n', 'b', '\\', x, '\n', 'c', '\'', '\'', '\'', ' ', '1'}
	default: // short inputs around the 4-byte format sniff
		y := vnondetU8()
		vassume(x == 0xE0 || x == '1' || x == ' ')
		vassume(y == 0xEA || y == '2' || y == ' ')
		return []byte{x, 0x01, 0x00, y, 0x20}[:vnondetInt(0, 5)]
	}
}

// vEvKey folds what was seen of a value into one word for comparison (type, nullness, depth, small payloads).
func vEvKey(e vEv) uint64 {
	k := uint64(e.typ) | uint64(e.depth)<<8
	if e.null {
		k |= 1 << 16
	}
	if e.accErr {
		k |= 1 << 17
	}
	k |= uint64(len(e.ann)) << 20
	if e.field.present {
		k |= 1 << 24
	}
	k ^= uint64(e.i) << 32
	k ^= uint64(len(e.s))<<40 ^ uint64(len(e.bs))<<44
	if e.b {
		k |= 1 << 18
	}
	return k
}

func vSameEvs(a, b []vEv) bool {
	if len(a) != len(b) {
		return false
	}
	for i := range a {
		if vEvKey(a[i]) != vEvKey(b[i]) || a[i].s != b[i].s || !vSameBytes(a[i].bs, b[i].bs) || !vSameSym(a[i].sym, b[i].sym) {
			return false
		}
	}
	return true
}

func H_C19_chunks() {
	data := vC19Doc(vparam("doc", 0))
	// one-shot delivery
	r0 := NewReaderBytes(data)
	var ev0 []vEv
	se0 := vTraverse(r0, 0, 4, false, &ev0)
	err0 := r0.Err()
	// chunked delivery
	src := &vChunkSrc{data: data, failAt: -1}
	if vparam("single", 0) == 1 {
		src.single = true
	} else {
		src.c1 = vnondetInt(0, len(data))
		src.c2 = vnondetInt(src.c1, len(data))
	}
	src.eofData = vnondetBool()
	r1 := NewReader(src)
	var ev1 []vEv
	se1 := vTraverse(r1, 0, 4, false, &ev1)
	err1 := r1.Err()
	vassert(se0 == se1 && (err0 == nil) == (err1 == nil), "the final error does not depend on chunking")
	vassert(vSameEvs(ev0, ev1), "the values do not depend on chunking")
	if err0 == nil {
		vcover("ok")
	} else {
		vcover("err")
	}
	vobserve("n", uint64(len(ev1)))
	vcover("end")
}

func H_C19_rfail() {
	data := vC19Doc(vparam("doc", 0))
	src := &vChunkSrc{data: data}
	src.failAt = vnondetInt(0, len(data))
	src.c1 = vnondetInt(0, len(data))
	src.c2 = src.c1
	r := NewReader(src)
	var evs []vEv
	stepErr := vTraverse(r, 0, 4, false, &evs)
	vassert(r.Err() != nil || stepErr, "a failing io.Reader ends the traversal with an error, not a clean end of data")
	vAfter(r)
	vobserve("n", uint64(len(evs)))
	vcover("end")
}

// H_C19_wfail: the sink fails at the k-th Write. Program = a shape of value writes (param shape, as in H_C01_bin) or a
// two-call symbolic program; some call up to and including Finish returns an error, every later call returns an
// error, and the accepted bytes are a prefix of the fault-free output.
func H_C19_wfail() {
	config := vparam("config", 2)
	L := vparam("L", 2)
	prog := make([]vWCall, 0, L)
	for i := 0; i < L; i++ {
		var c vWCall
		c.op = vnondetInt(0, vNumOps-1)
		vassume(c.op != vOpNullType)
		switch c.op {
		case vOpInt:
			c.arg = vnondetU8()
		case vOpSymTok:
			c.arg = uint8(vnondetInt(0, 1))
		}
		prog = append(prog, c)
	}
	// fault-free run
	good := &vSink{failAt: -1}
	w0 := vNewWriter(config, good)
	for _, c := range prog {
		vApply(w0, c)
	}
	w0.Finish()
	vassume(good.writes > 0)
	k := vnondetInt(0, good.writes-1)
	bad := &vSink{failAt: k, once: vparam("once", 0) == 1}
	w := vNewWriter(config, bad)
	reported := false // some call has returned an error after the sink failed
	for _, c := range prog {
		err := vApply(w, c)
		if reported {
			vassert(err != nil, "after the failure was reported every later call fails")
		}
		if err != nil && bad.failed {
			reported = true
		}
	}
	ferr := w.Finish()
	if bad.failed {
		vassert(reported || ferr != nil, "a failed write is reported by some call up to and including Finish")
		vassert(w.Finish() != nil, "and keeps being reported")
		vcover("fault")
	}
	vassert(len(bad.buf) <= len(good.buf) && vSameBytes(bad.buf, good.buf[:len(bad.buf)]), "the accepted bytes are a prefix of the fault-free output")
	vcover("end")
}

// H_C19_wfail_methods: every value method of the Writer (see vCallMethod) followed by Finish, over a sink that fails
// at an arbitrary Write.
func H_C19_wfail_methods() {
	config := vparam("config", 2)
	m := vnondetInt(0, 16)
	u := vnondetU8()
	run := func(w Writer) (e1, e2, e3 error) {
		e1, _, _ = vCallMethod(w, m, u)
		switch m {
		case 14:
			e2 = w.EndList()
		case 15:
			e2 = w.EndSexp()
		case 16:
			e2 = w.EndStruct()
		default:
			e2 = w.WriteInt(5)
		}
		e3 = w.Finish()
		return
	}
	good := &vSink{failAt: -1}
	run(vNewWriter(config, good))
	vassume(good.writes > 0)
	bad := &vSink{failAt: vnondetInt(0, good.writes-1), once: vparam("once", 0) == 1}
	w := vNewWriter(config, bad)
	e1, e2, e3 := run(w)
	vassert(bad.failed, "the fault is reached")
	vassert(e1 != nil || e2 != nil || e3 != nil, "a failed write is reported by some call up to and including Finish")
	if e1 != nil {
		vassert(e2 != nil && e3 != nil, "after the failure was reported every later call fails")
	}
	if e2 != nil {
		vassert(e3 != nil, "after the failure was reported Finish fails")
	}
	vassert(w.Finish() != nil && w.WriteInt(1) != nil, "and the failure keeps being reported")
	vassert(len(bad.buf) <= len(good.buf) && vSameBytes(bad.buf, good.buf[:len(bad.buf)]), "the accepted bytes are a prefix of the fault-free output")
	vcover("end")
}
