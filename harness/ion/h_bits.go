package ion

// Harnesses over bits.go: length pre-computation equals bytes produced, and the bytes decode (by a reference
// decoder written from the Ion 1.0 binary specification, sharing no code with ion-go) to the input value.
// All inputs are full-width symbolic machine words. Serves C04 (length lemmas) and C13 (exact encodings).

// refUint: big-endian unsigned magnitude.
func refUint(bs []byte) (val uint64, fits bool) {
	fits = true
	for _, c := range bs {
		if val>>56 != 0 {
			fits = false
		}
		val = val<<8 | uint64(c)
	}
	return
}

// refVarUint: 7 bits per byte, high bit set on the last byte only. ok=false when the stop bit is misplaced.
func refVarUint(bs []byte) (val uint64, fits, ok bool) {
	fits = true
	if len(bs) == 0 {
		return 0, true, false
	}
	for i, c := range bs {
		if (c&0x80 != 0) != (i == len(bs)-1) {
			return 0, true, false
		}
		if val>>57 != 0 {
			fits = false
		}
		val = val<<7 | uint64(c&0x7F)
	}
	return val, fits, true
}

// refVarInt: first byte carries sign in bit 6 and 6 magnitude bits.
func refVarInt(bs []byte) (mag uint64, neg, fits, ok bool) {
	fits = true
	if len(bs) == 0 {
		return 0, false, true, false
	}
	for i, c := range bs {
		if (c&0x80 != 0) != (i == len(bs)-1) {
			return 0, false, true, false
		}
		if i == 0 {
			neg = c&0x40 != 0
			mag = uint64(c & 0x3F)
		} else {
			if mag>>57 != 0 {
				fits = false
			}
			mag = mag<<7 | uint64(c&0x7F)
		}
	}
	return mag, neg, fits, true
}

// refInt: sign-and-magnitude, sign in the top bit of the first byte.
func refInt(bs []byte) (mag uint64, neg, fits bool) {
	fits = true
	for i, c := range bs {
		if i == 0 {
			neg = c&0x80 != 0
			mag = uint64(c & 0x7F)
		} else {
			if mag>>56 != 0 {
				fits = false
			}
			mag = mag<<8 | uint64(c)
		}
	}
	return
}

func H_C04_uint() {
	v := vnondetU64()
	out := appendUint(nil, v)
	vassert(uint64(len(out)) == uintLen(v), "uintLen==len(appendUint)")
	got, fits := refUint(out)
	vassert(fits && got == v, "appendUint decodes to v")
	vassert(len(out) == 1 || out[0] != 0, "appendUint minimal")
	vobserve("len", uint64(len(out)))
	vcover("end")
}

func H_C04_int() {
	v := int64(vnondetU64())
	out := appendInt(nil, v)
	vassert(uint64(len(out)) == intLen(v), "intLen==len(appendInt)")
	mag, neg, fits := refInt(out)
	vassert(fits, "appendInt fits")
	if v < 0 {
		vassert(neg && mag == uint64(-v), "appendInt decodes negative")
	} else {
		vassert((!neg || v == 0) && mag == uint64(v), "appendInt decodes non-negative")
	}
	if v == 0 {
		vassert(len(out) == 0, "zero is empty")
	}
	vobserve("len", uint64(len(out)))
	vcover("end")
}

func H_C04_varuint() {
	v := vnondetU64()
	out := appendVarUint(nil, v)
	vassert(uint64(len(out)) == varUintLen(v), "varUintLen==len(appendVarUint)")
	got, fits, ok := refVarUint(out)
	vassert(ok && fits && got == v, "appendVarUint decodes to v")
	vobserve("len", uint64(len(out)))
	vcover("end")
}

func H_C04_varint() {
	v := int64(vnondetU64())
	out := appendVarInt(nil, v)
	vassert(uint64(len(out)) == varIntLen(v), "varIntLen==len(appendVarInt)")
	mag, neg, fits, ok := refVarInt(out)
	vassert(ok && fits, "appendVarInt well-formed")
	if v < 0 {
		vassert(neg && mag == uint64(-v), "appendVarInt decodes negative")
	} else {
		vassert(!neg && mag == uint64(v), "appendVarInt decodes non-negative")
	}
	vobserve("len", uint64(len(out)))
	vcover("end")
}

func H_C04_tag() {
	code := vnondetU8()
	vassume(code&0x0F == 0)
	length := vnondetU64()
	out := appendTag(nil, code, length)
	vassert(uint64(len(out)) == tagLen(length), "tagLen==len(appendTag)")
	vassert(out[0]&0xF0 == code, "tag keeps type code")
	if length < 14 {
		vassert(len(out) == 1 && uint64(out[0]&0x0F) == length, "inline length")
		vcover("inline")
	} else {
		vassert(out[0]&0x0F == 14, "L=14 marks VarUInt length")
		got, fits, ok := refVarUint(out[1:])
		vassert(ok && fits && got == length, "VarUInt length decodes")
		vcover("varuint")
	}
	vobserve("len", uint64(len(out)))
	vcover("end")
}
