package main

import (
	"fmt"
	"math/big"
	"sort"
	"strings"

	"golang.org/x/tools/go/ssa"
)

type Event struct {
	kind   int // 0 branch (2-way), 1 assume/forced, 2 k-way concretisation
	choice int
	alts   []int // feasible alternatives (for kind 0: subset of {0,1}; kind 2: concrete values)
}

type Violation struct {
	kind  string // assert | panic | unwind | alloc
	where string
	msg   string
	model map[string]*big.Int
	tape  []string
}

type Explorer struct {
	e      *Engine
	s      *Solver
	b      *TermBank
	prefix []Event
	events []Event
	synced int
	nondet []*Term
	model  map[string]*big.Int
	cache  map[int]*big.Int

	Paths, Pruned, Unknown int
	Violations            []Violation
	covered               map[string]int
	seenViol              map[string]bool
	stopAtFirst           bool
	asserts               int
}

func (x *Explorer) pushAssert(c *Term) {
	if x.model != nil && x.b.Eval(c, x.model, x.cache).Sign() == 0 {
		x.model = nil // stale: no longer a model of the path condition
	}
	i := len(x.events)
	if i >= x.synced {
		x.s.Push()
		x.s.Assert(c)
		x.synced++
	}
}

// feasible checks pc ∧ c
func (x *Explorer) feasible(c *Term) string {
	if x.model != nil {
		if x.b.Eval(c, x.model, x.cache).Sign() != 0 {
			return "sat"
		}
	}
	x.s.Push()
	x.s.Assert(c)
	r := x.s.Check()
	if r == "sat" {
		x.model = x.s.Model(x.nondet)
		x.cache = map[int]*big.Int{}
	}
	x.s.Pop(1)
	if r == "unknown" {
		x.Unknown++
	}
	return r
}

func (x *Explorer) replaying() bool { return len(x.events) < len(x.prefix) }

func (x *Explorer) branch(c *Term, fn *ssa.Function, ins ssa.Instruction) bool {
	i := len(x.events)
	var ev Event
	if i < len(x.prefix) {
		ev = x.prefix[i]
	} else {
		ev = Event{kind: 0}
		if r := x.feasible(c); r != "unsat" {
			ev.alts = append(ev.alts, 0)
		}
		if r := x.feasible(x.b.Not(c)); r != "unsat" {
			ev.alts = append(ev.alts, 1)
		}
		if len(ev.alts) == 0 {
			panic(pathEnd{"infeasible at branch"})
		}
		ev.choice = ev.alts[0]
	}
	cc := c
	if ev.choice == 1 {
		cc = x.b.Not(c)
	}
	x.pushAssert(cc)
	x.events = append(x.events, ev)
	return ev.choice == 0
}

func (x *Explorer) concretize(t *Term, sg bool, what string, limit int) int {
	i := len(x.events)
	var ev Event
	if i < len(x.prefix) {
		ev = x.prefix[i]
	} else {
		ev = Event{kind: 2}
		// enumerate feasible values 0..limit via blocking
		x.s.Push()
		w := t.sort.W
		for len(ev.alts) <= 64 {
			x.s.Assert(x.b.Bin(OBvULE, t, x.b.BVu(uint64(limit), w)))
			r := x.s.Check()
			if r != "sat" {
				if r == "unknown" {
					x.Unknown++
				}
				break
			}
			m := x.s.Model(x.nondet)
			v := x.b.Eval(t, m, map[int]*big.Int{})
			ev.alts = append(ev.alts, int(v.Int64()))
			x.s.Assert(x.b.Not(x.b.Eq(t, x.b.BV(v, w))))
		}
		x.s.Pop(1)
		// can it exceed the limit?
		if r := x.feasible(x.b.Not(x.b.Bin(OBvULE, t, x.b.BVu(uint64(limit), w)))); r != "unsat" {
			x.report("alloc", "size/limit", fmt.Sprintf("%s can exceed limit %d", what, limit), x.b.Not(x.b.Bin(OBvULE, t, x.b.BVu(uint64(limit), w))))
		}
		if len(ev.alts) == 0 {
			panic(pathEnd{"no feasible concrete value for " + what})
		}
		sort.Ints(ev.alts)
		ev.choice = 0
	}
	v := ev.alts[ev.choice]
	x.pushAssert(x.b.Eq(t, x.b.BVu(uint64(v), t.sort.W)))
	x.events = append(x.events, ev)
	return v
}

func (x *Explorer) assume(c *Term) {
	if c.IsConst() {
		if !c.ConstBool() {
			panic(pathEnd{"assume false"})
		}
		return
	}
	i := len(x.events)
	if i >= len(x.prefix) {
		if x.feasible(c) == "unsat" {
			x.Pruned++
			panic(pathEnd{"assume infeasible"})
		}
	}
	x.pushAssert(c)
	x.events = append(x.events, Event{kind: 1})
}

func (x *Explorer) report(kind, where, msg string, cond *Term) {
	key := kind + "|" + where + "|" + msg
	// get model of pc ∧ cond
	x.s.Push()
	x.s.Assert(cond)
	r := x.s.Check()
	var m map[string]*big.Int
	if r == "sat" {
		m = x.s.Model(x.nondet)
	}
	x.s.Pop(1)
	if r != "sat" {
		return
	}
	if x.seenViol[key] {
		return
	}
	x.seenViol[key] = true
	v := Violation{kind: kind, where: where, msg: msg, model: m}
	for _, n := range x.nondet {
		val := m[n.name]
		if val == nil {
			val = big.NewInt(0)
		}
		v.tape = append(v.tape, fmt.Sprintf("%s=0x%x", n.name, val))
	}
	x.Violations = append(x.Violations, v)
}

func pos(prog *ssa.Program, fn *ssa.Function, ins ssa.Instruction) string {
	name := "?"
	if fn != nil {
		name = fn.String()
	}
	if ins != nil && ins.Pos().IsValid() {
		p := prog.Fset.Position(ins.Pos())
		return fmt.Sprintf("%s (%s:%d)", name, p.Filename, p.Line)
	}
	return name
}

func (x *Explorer) vassert(c *Term, where string) {
	x.asserts++
	if c.IsConst() {
		if !c.ConstBool() && !x.replaying() {
			x.report("assert", where, "assertion false on path", x.b.Bool(true))
			panic(pathEnd{"assert failed (concrete)"})
		}
		return
	}
	if !x.replaying() {
		nc := x.b.Not(c)
		if x.feasible(nc) != "unsat" {
			x.report("assert", where, "assertion can fail", nc)
		}
	}
	x.assume(c)
}

func (x *Explorer) checkPanic(failCond *Term, fn *ssa.Function, ins ssa.Instruction, msg string) {
	if failCond.IsConst() {
		if failCond.ConstBool() {
			x.goPanic(fn, ins, msg)
		}
		return
	}
	if !x.replaying() {
		if x.feasible(failCond) != "unsat" {
			x.report("panic", pos(x.e.prog, fn, ins), msg, failCond)
		}
	}
	x.assume(x.b.Not(failCond))
}

func (x *Explorer) goPanic(fn *ssa.Function, ins ssa.Instruction, msg string) {
	if !x.replaying() {
		x.report("panic", pos(x.e.prog, fn, ins), msg, x.b.Bool(true))
	}
	panic(pathEnd{"go panic: " + msg})
}

func (x *Explorer) unwindFail(fn *ssa.Function, blk *ssa.BasicBlock) {
	x.report("unwind", fn.String()+" block "+blk.String(), "loop bound exceeded", x.b.Bool(true))
	panic(pathEnd{"unwind"})
}

func (x *Explorer) newNondet(w int) *Term {
	t := x.b.Var(fmt.Sprintf("n%d_%d", len(x.nondet), w), Sort{SBV, w})
	x.nondet = append(x.nondet, t)
	return t
}

// Run explores all paths of harness fn.
func (x *Explorer) Run(fn *ssa.Function) {
	x.prefix = nil
	for {
		x.events = nil
		x.nondet = nil
		x.model = nil
		x.e.steps0()
		func() {
			defer func() {
				if r := recover(); r != nil {
					switch v := r.(type) {
					case pathEnd:
						_ = v
					case unsupported:
						x.report("unsupported", string(v), string(v), x.b.Bool(true))
					default:
						panic(r)
					}
				}
			}()
			x.e.call(fn, nil, nil)
			x.Paths++
		}()
		// backtrack
		i := len(x.events) - 1
		for ; i >= 0; i-- {
			ev := x.events[i]
			if ev.kind == 1 {
				continue
			}
			idx := -1
			for k, a := range ev.alts {
				if ev.kind == 0 && a == ev.choice {
					idx = k
				}
				if ev.kind == 2 && k == ev.choice {
					idx = k
				}
			}
			if idx+1 < len(ev.alts) {
				nev := ev
				if ev.kind == 0 {
					nev.choice = ev.alts[idx+1]
				} else {
					nev.choice = idx + 1
				}
				x.prefix = append(append([]Event{}, x.events[:i]...), nev)
				break
			}
		}
		if i < 0 {
			x.s.Pop(x.synced)
			x.synced = 0
			return
		}
		if x.synced > i {
			x.s.Pop(x.synced - i)
			x.synced = i
		}
		if x.stopAtFirst && len(x.Violations) > 0 {
			x.s.Pop(x.synced)
			x.synced = 0
			return
		}
	}
}

func (e *Engine) steps0() {}

func describe(v Violation) string {
	return fmt.Sprintf("[%s] %s: %s  tape: %s", v.kind, v.where, v.msg, strings.Join(v.tape, " "))
}
