package main

// Intrinsics: the harness API (nondet / assume / assert / cover / observe / known) and the models of library code
// that cannot be lowered from go/ssa (fmt, unsafe-based math bit casts, assembly in internal/bytealg, math/big).
// Every model used on a run is listed in that run's evidence (stubs_used).

import (
	"fmt"
	"os"
	"math"
	"strconv"

	"go/types"
	"golang.org/x/tools/go/ssa"
	"math/big"
	"strings"
)

var intrinsics = map[string]intrinsicFn{}

const P = repoMod + "ion."
const PC = repoMod + "cmd/ion-go."

var cmdOnlyIntrinsics = map[string]bool{}

func (e *Engine) used(name string) {
	e.x.sh.mu.Lock()
	e.x.sh.assumptions["stub:"+name]++
	e.x.sh.mu.Unlock()
}

func regBoth(name string, f intrinsicFn) {
	intrinsics[P+name] = f
	intrinsics[PC+name] = f
}

func init() {
	regBoth("vnondetU64", func(e *Engine, f *frame, a []Value) Value { return e.x.newNondet(Sort{SBV, 64}) })
	regBoth("vnondetU32", func(e *Engine, f *frame, a []Value) Value { return e.x.newNondet(Sort{SBV, 32}) })
	regBoth("vnondetU16", func(e *Engine, f *frame, a []Value) Value { return e.x.newNondet(Sort{SBV, 16}) })
	regBoth("vnondetU8", func(e *Engine, f *frame, a []Value) Value { return e.x.newNondet(Sort{SBV, 8}) })
	regBoth("vnondetBool", func(e *Engine, f *frame, a []Value) Value {
		v := e.x.newNondet(Sort{SBV, 8})
		e.x.assume(e.b.Bin(OBvULE, v, e.b.BVu(1, 8)))
		return e.b.Eq(v, e.b.BVu(1, 8))
	})
	// vnondetInt(lo, hi): a concrete int in [lo,hi], one path per feasible value
	regBoth("vnondetInt", func(e *Engine, f *frame, a []Value) Value {
		lo, hi := e.term(a[0]).ConstS(), e.term(a[1]).ConstS()
		v := e.x.newNondet(Sort{SBV, 64})
		e.x.assume(e.b.And(e.b.Bin(OBvSLE, e.b.BVi(lo, 64), v), e.b.Bin(OBvSLE, v, e.b.BVi(hi, 64))))
		n := e.x.concretize(v, true, "vnondetInt", lo, hi, nil)
		return e.b.BVi(n, 64)
	})
	regBoth("vnondetBytes", func(e *Engine, f *frame, a []Value) Value {
		n := e.concInt(e.term(a[0]), true, "nondet bytes len", 0, 1<<16, nil)
		ts := make([]*Term, n)
		for i := range ts {
			ts[i] = e.x.newNondet(Sort{SBV, 8})
		}
		return e.byteSlice(ts)
	})
	regBoth("vnondetString", func(e *Engine, f *frame, a []Value) Value {
		n := e.concInt(e.term(a[0]), true, "nondet string len", 0, 1<<16, nil)
		ts := make([]*Term, n)
		for i := range ts {
			ts[i] = e.x.newNondet(Sort{SBV, 8})
		}
		return &StrV{b: ts}
	})
	regBoth("vnondetBigInt", func(e *Engine, f *frame, a []Value) Value {
		v := e.x.newNondet(intSort)
		return e.newBig(v)
	})
	regBoth("vassume", func(e *Engine, f *frame, a []Value) Value { e.x.assume(e.term(a[0])); return nil })
	regBoth("vassert", func(e *Engine, f *frame, a []Value) Value {
		e.x.vassert(e.term(a[0]), e.concStr(a[1].(*StrV)))
		return nil
	})
	regBoth("vcover", func(e *Engine, f *frame, a []Value) Value {
		l := e.concStr(a[0].(*StrV))
		e.x.labels = append(e.x.labels, l)
		e.x.obs = append(e.x.obs, obsEntry{label: "@" + l})
		return nil
	})
	regBoth("vobserve", func(e *Engine, f *frame, a []Value) Value {
		e.x.obs = append(e.x.obs, obsEntry{label: e.concStr(a[0].(*StrV)), t: e.term(a[1])})
		return nil
	})
	regBoth("vobserveBytes", func(e *Engine, f *frame, a []Value) Value {
		l := e.concStr(a[0].(*StrV))
		for i, v := range e.sliceElems(a[1]) {
			e.x.obs = append(e.x.obs, obsEntry{label: fmt.Sprintf("%s[%d]", l, i), t: e.b.ZExt(e.term(v), 64)})
		}
		return nil
	})
	regBoth("vknown", func(e *Engine, f *frame, a []Value) Value {
		return e.b.Bool(e.x.known(e.concStr(a[0].(*StrV)), e.term(a[1])))
	})
	regBoth("vparam", func(e *Engine, f *frame, a []Value) Value {
		n := e.concStr(a[0].(*StrV))
		if v, ok := e.cfg[n]; ok {
			return e.b.BVi(v, 64)
		}
		return a[1]
	})
	regBoth("vdebugStr", func(e *Engine, f *frame, a []Value) Value {
		fmt.Fprintf(os.Stderr, "VDEBUG %s: %s\n", e.concStr(a[0].(*StrV)), e.concStr(a[1].(*StrV)))
		return nil
	})
	regBoth("vsymbolic", func(e *Engine, f *frame, a []Value) Value { return e.b.tt })

	intrinsics["fmt.Sprintf"] = func(e *Engine, f *frame, a []Value) Value {
		return e.sprintf(a[0].(*StrV), e.sliceElems(a[1]))
	}
	intrinsics["fmt.Errorf"] = func(e *Engine, f *frame, a []Value) Value {
		s := e.sprintf(a[0].(*StrV), e.sliceElems(a[1]))
		return e.call(e.stdFunc("errors", "New"), []Value{s}, nil)
	}
	intrinsics["fmt.Sprint"] = func(e *Engine, f *frame, a []Value) Value { return e.strConst("<fmt>") }
	intrinsics["fmt.Println"] = func(e *Engine, f *frame, a []Value) Value {
		return Tuple{e.b.BVu(0, 64), nilIface}
	}
	intrinsics["fmt.Printf"] = intrinsics["fmt.Println"]
	intrinsics["fmt.Fprintf"] = intrinsics["fmt.Println"]
	intrinsics["fmt.Fprintln"] = intrinsics["fmt.Println"]

	ident := func(e *Engine, f *frame, a []Value) Value { return a[0] }
	intrinsics["math.Float64bits"] = ident
	intrinsics["math.Float64frombits"] = ident
	intrinsics["math.Float32bits"] = ident
	intrinsics["math.Float32frombits"] = ident
	intrinsics["internal/abi.NoEscape"] = ident
	intrinsics["internal/abi.Escape"] = ident
	// strconv float formatting/parsing: evaluated natively for concrete arguments (the engine and the code under test
	// share the same Go release); symbolic floats/strings are outside the claim.
	intrinsics["strconv.ParseFloat"] = func(e *Engine, f *frame, a []Value) Value {
		s := a[0].(*StrV)
		for _, c := range s.b {
			if !c.IsConst() {
				// environment stub: the syntax check of strconv.ParseFloat (decimal form) is done exactly, character
				// by character; the numeric value is an arbitrary float64 and a range error may or may not occur
				e.used("strconv.ParseFloat(symbolic string): exact syntax check, arbitrary float64 value, err in {nil, ErrRange}")
				if !e.floatSyntaxOK(s.b) {
					return Tuple{e.b.BVu(0, 64), e.newNumError("ParseFloat", "<symbolic>", "ErrSyntax")}
				}
				v := e.x.newHidden(Sort{SBV, 64})
				k := e.x.newHidden(Sort{SBV, 8})
				if len(s.b) < 5 || e.decide(e.b.Eq(k, e.b.BVu(0, 8))) {
					return Tuple{v, nilIface}
				}
				return Tuple{v, e.newNumError("ParseFloat", "<symbolic>", "ErrRange")}
			}
		}
		bits := int(e.term(a[1]).ConstS())
		v, err := strconv.ParseFloat(e.concStr(s), bits)
		var ev Value = nilIface
		if err != nil {
			ne := err.(*strconv.NumError)
			inner := "ErrSyntax"
			if ne.Err == strconv.ErrRange {
				inner = "ErrRange"
			}
			// build a real *strconv.NumError value inside the interpreter: Func, Num, Err (the package's own sentinel)
			ev = e.newNumError(ne.Func, ne.Num, inner)
		}
		return Tuple{e.b.BVu(math.Float64bits(v), 64), ev}
	}
	intrinsics["strconv.FormatFloat"] = func(e *Engine, f *frame, a []Value) Value {
		v := e.term(a[0])
		if !v.IsConst() {
			panic(unsupported("strconv.FormatFloat of a symbolic float (outside the claim)"))
		}
		fmtc := byte(e.term(a[1]).ConstU())
		prec := int(e.term(a[2]).ConstS())
		bits := int(e.term(a[3]).ConstS())
		return e.strConst(strconv.FormatFloat(math.Float64frombits(v.ConstU()), fmtc, prec, bits))
	}
	intrinsics["math.Round"] = func(e *Engine, f *frame, a []Value) Value { return e.b.FpRound(e.term(a[0])) }
	nop := func(e *Engine, f *frame, a []Value) Value { return nil }
	intrinsics["(*sync.Mutex).Lock"] = nop
	intrinsics["(*sync.Mutex).Unlock"] = nop
	intrinsics["(*sync.RWMutex).Lock"] = nop
	intrinsics["(*sync.RWMutex).Unlock"] = nop
	intrinsics["(*sync.RWMutex).RLock"] = nop
	intrinsics["(*sync.RWMutex).RUnlock"] = nop
	intrinsics["internal/race.Enabled"] = nop

	// sync/atomic: sequential semantics (no concurrency on any interpreted path)
	for _, ty := range []string{"Int32", "Uint32", "Int64", "Uint64", "Uintptr"} {
		intrinsics["sync/atomic.Load"+ty] = func(e *Engine, f *frame, a []Value) Value {
			p := a[0].(*Ptr)
			if p.s == nil {
				e.x.goPanic(nil, nil, "nil dereference (atomic load)")
			}
			return e.load(p.s)
		}
		intrinsics["sync/atomic.Store"+ty] = func(e *Engine, f *frame, a []Value) Value {
			p := a[0].(*Ptr)
			if p.s == nil {
				e.x.goPanic(nil, nil, "nil dereference (atomic store)")
			}
			e.store(p.s, a[1])
			return nil
		}
		intrinsics["sync/atomic.Add"+ty] = func(e *Engine, f *frame, a []Value) Value {
			p := a[0].(*Ptr)
			v := e.b.Bin(OBvAdd, e.term(e.load(p.s)), e.term(a[1]))
			e.store(p.s, v)
			return v
		}
		intrinsics["sync/atomic.CompareAndSwap"+ty] = func(e *Engine, f *frame, a []Value) Value {
			p := a[0].(*Ptr)
			if e.decide(e.b.Eq(e.term(e.load(p.s)), e.term(a[1]))) {
				e.store(p.s, a[2])
				return e.b.tt
			}
			return e.b.ff
		}
	}

	// time: the local time zone is not read from the operating system; Local behaves as UTC (TZ of the sandbox)
	intrinsics["time.initLocal"] = func(e *Engine, f *frame, a []Value) Value {
		e.used("time.Local = UTC (zone files are not read)")
		return nil
	}

	// cmd/ion-go: the error report and event stream are serialised by ion.Encoder (reflection): environment
	intrinsics["(*"+strings.TrimSuffix(PC, ".")+".ErrorReport).Append"] = func(e *Engine, f *frame, a []Value) Value {
		e.used("cmd/ion-go ErrorReport.Append (ion.Encoder, reflection) = no-op")
		return nil
	}
	cmdOnlyIntrinsics["(*"+strings.TrimSuffix(P, ".")+".Encoder).Encode"] = true
	intrinsics["(*"+strings.TrimSuffix(P, ".")+".Encoder).Encode"] = func(e *Engine, f *frame, a []Value) Value {
		// a harness may observe what is handed to the encoder: func vOnEncode(v interface{}) in the package under test
		if fn := e.pkg.Func("vOnEncode"); fn != nil {
			e.used("ion.Encoder.Encode (reflection) = value handed to the harness callback vOnEncode, returns nil")
			e.call(fn, []Value{a[1]}, nil)
			return nilIface
		}
		e.used("ion.Encoder.Encode (reflection) = returns nil")
		return nilIface
	}
	intrinsics[PC+"stringify"] = func(e *Engine, f *frame, a []Value) Value {
		e.used("cmd/ion-go stringify (ion.MarshalText, reflection) = opaque text")
		return e.strConst("<value>")
	}

	intrinsics["internal/bytealg.MakeNoZero"] = func(e *Engine, f *frame, a []Value) Value {
		n := e.concInt(e.term(a[0]), true, "MakeNoZero len", 0, int64(e.allocLimit), nil)
		return &SliceV{arr: e.newArraySlot(types.Typ[types.Byte], n), len: n, cap: n}
	}
	// sort.Slice goes through internal/reflectlite (unsafe): insertion sort over the slice's own element slots, the
	// less closure is the real one (a symbolic comparison forks)
	sortSlice := func(e *Engine, f *frame, a []Value) Value {
		sv, ok := a[0].(*Iface).v.(*SliceV)
		if !ok {
			e.x.goPanic(nil, nil, "sort.Slice of a non-slice")
		}
		less := a[1].(*FuncV)
		for i := 1; i < sv.len; i++ {
			for j := i; j > 0; j-- {
				r := e.invoke(less, []Value{e.b.BVi(int64(j), 64), e.b.BVi(int64(j-1), 64)})
				if !e.decide(e.term(r)) {
					break
				}
				x, y := sv.arr.kid(sv.off+j), sv.arr.kid(sv.off+j-1)
				vx, vy := e.load(x), e.load(y)
				e.store(x, vy)
				e.store(y, vx)
			}
		}
		return nil
	}
	intrinsics["sort.Slice"] = sortSlice
	intrinsics["sort.SliceStable"] = sortSlice
	// assembly in internal/bytealg
	intrinsics["internal/bytealg.IndexByteString"] = func(e *Engine, f *frame, a []Value) Value {
		return e.indexByte(a[0].(*StrV).b, e.term(a[1]))
	}
	intrinsics["internal/bytealg.IndexByte"] = func(e *Engine, f *frame, a []Value) Value {
		return e.indexByte(e.sliceBytes(a[0].(*SliceV)), e.term(a[1]))
	}
	intrinsics["internal/bytealg.CountString"] = func(e *Engine, f *frame, a []Value) Value {
		n := 0
		for _, c := range a[0].(*StrV).b {
			if e.decide(e.b.Eq(c, e.term(a[1]))) {
				n++
			}
		}
		return e.b.BVi(int64(n), 64)
	}
	intrinsics["internal/bytealg.Equal"] = func(e *Engine, f *frame, a []Value) Value {
		x, y := e.sliceBytes(a[0].(*SliceV)), e.sliceBytes(a[1].(*SliceV))
		if len(x) != len(y) {
			return e.b.ff
		}
		r := e.b.tt
		for i := range x {
			r = e.b.And(r, e.b.Eq(x[i], y[i]))
		}
		return r
	}
	intrinsics["internal/stringslite.Index"] = func(e *Engine, f *frame, a []Value) Value {
		return e.indexStr(a[0].(*StrV).b, a[1].(*StrV).b)
	}
	intrinsics["strings.Index"] = intrinsics["internal/stringslite.Index"]
	intrinsics["strings.LastIndex"] = func(e *Engine, f *frame, a []Value) Value {
		s, sub := a[0].(*StrV).b, a[1].(*StrV).b
		for i := len(s) - len(sub); i >= 0; i-- {
			c := e.b.tt
			for j := range sub {
				c = e.b.And(c, e.b.Eq(s[i+j], sub[j]))
			}
			if e.decide(c) {
				return e.b.BVi(int64(i), 64)
			}
		}
		return e.b.BVi(-1, 64)
	}
	intrinsics["strings.IndexByte"] = intrinsics["internal/bytealg.IndexByteString"]
	intrinsics["bytes.IndexByte"] = intrinsics["internal/bytealg.IndexByte"]

	initBig()
}

func (e *Engine) indexByte(s []*Term, c *Term) Value {
	for i, x := range s {
		if e.decide(e.b.Eq(x, c)) {
			return e.b.BVi(int64(i), 64)
		}
	}
	return e.b.BVi(-1, 64)
}

func (e *Engine) indexStr(s, sub []*Term) Value {
	for i := 0; i+len(sub) <= len(s); i++ {
		c := e.b.tt
		for j := range sub {
			c = e.b.And(c, e.b.Eq(s[i+j], sub[j]))
		}
		if e.decide(c) {
			return e.b.BVi(int64(i), 64)
		}
	}
	return e.b.BVi(-1, 64)
}

// decimal digits of an unsigned bit-vector, most significant first; forks on the digit count
func (e *Engine) decDigitsBV(v *Term) []*Term {
	b := e.b
	w := v.sort.W
	if v.IsConst() {
		return e.strConst(fmt.Sprint(v.ConstU())).b
	}
	k := 1
	p := uint64(10)
	for k < 20 {
		if p > maskU(w) && w < 64 {
			break
		}
		if e.decide(b.Bin(OBvULT, v, b.BVu(p, w))) {
			break
		}
		k++
		if k == 20 {
			break
		}
		p *= 10
	}
	// The digits are fresh solver variables d_i in 0..9 defined by v == sum d_i * 10^i (multiplications by
	// constants instead of divisions: the same function, far cheaper for the bit-blaster). The digit count k is
	// already fixed by the fork above, so the digits are unique.
	out := make([]*Term, k)
	sum := b.BVu(0, w)
	d := uint64(1)
	for i := k - 1; i >= 0; i-- {
		h := e.x.newHidden(Sort{SBV, 8})
		e.x.assume(b.Bin(OBvULE, h, b.BVu(9, 8)))
		if i == 0 && k == 20 {
			e.x.assume(b.Bin(OBvULE, h, b.BVu(1, 8)))
		}
		term := b.ZExt(h, w)
		if d != 1 {
			term = b.Bin(OBvMul, term, b.BVu(d, w))
		}
		sum = b.Bin(OBvAdd, sum, term)
		out[i] = b.Bin(OBvAdd, h, b.BVu('0', 8))
		d *= 10
	}
	e.x.assume(b.Eq(v, sum))
	return out
}

func (e *Engine) fmtInt(t *Term, sg bool) []*Term {
	b := e.b
	w := t.sort.W
	if !sg {
		return e.decDigitsBV(t)
	}
	if t.IsConst() {
		return e.strConst(fmt.Sprint(t.ConstS())).b
	}
	if e.decide(b.Bin(OBvSLT, t, b.BVu(0, w))) {
		return append([]*Term{b.BVu('-', 8)}, e.decDigitsBV(b.Neg(t))...)
	}
	return e.decDigitsBV(t)
}

// sprintf: %d %v %s %c %q %x on ints and strings are rendered exactly (symbolic digits); anything else becomes an
// opaque marker (error messages only).
func (e *Engine) sprintf(format *StrV, args []Value) *StrV {
	fs := e.concStr(format)
	var out []*Term
	ai := 0
	for i := 0; i < len(fs); i++ {
		c := fs[i]
		if c != '%' {
			out = append(out, e.b.BVu(uint64(c), 8))
			continue
		}
		i++
		if i >= len(fs) {
			break
		}
		specStart := i
		for i < len(fs) && strings.ContainsRune("+-# 0123456789.", rune(fs[i])) {
			i++
		}
		verb := fs[i]
		spec := "%" + fs[specStart:i+1]
		if verb == '%' {
			out = append(out, e.b.BVu('%', 8))
			continue
		}
		if ai >= len(args) {
			out = append(out, e.strConst("%!missing").b...)
			continue
		}
		arg := args[ai]
		ai++
		// concrete floats are formatted by the real fmt (same Go release as the code under test)
		if ifc, ok := arg.(*Iface); ok && ifc.t != nil && isFloat(ifc.t) {
			if t, ok := ifc.v.(*Term); ok && t.IsConst() && strings.ContainsRune("feEgGv", rune(verb)) {
				out = append(out, e.strConst(fmt.Sprintf(spec, fpVal(t.u, t.sort.W))).b...)
				continue
			}
		}
		out = append(out, e.fmtArg(verb, arg)...)
	}
	return &StrV{b: out}
}

func (e *Engine) fmtArg(verb byte, arg Value) []*Term {
	ifc, ok := arg.(*Iface)
	if !ok || ifc.t == nil {
		return e.strConst("<nil>").b
	}
	switch v := ifc.v.(type) {
	case *StrV:
		if verb == 'v' || verb == 's' {
			return v.b
		}
	case *Term:
		if bt, ok := ifc.t.Underlying().(*types.Basic); ok && bt.Info()&types.IsInteger != 0 {
			if _, named := ifc.t.(*types.Named); named && verb == 'v' {
				// named integer types may have String methods; only error text depends on them
				if m := e.prog.LookupMethod(ifc.t, nil, "String"); m != nil {
					return e.strConst("<" + ifc.t.String() + ">").b
				}
			}
			switch verb {
			case 'd', 'v':
				return e.fmtInt(v, isSigned(ifc.t))
			case 'c':
				return e.runeToString(v, isSigned(ifc.t)).b
			}
		}
	case *Ptr:
		if verb == 'v' || verb == 's' {
			// *string
			if v.s != nil {
				if s, ok := v.s.val.(*StrV); ok && verb == 's' {
					return s.b
				}
			}
		}
	}
	return e.strConst("<fmt>").b
}

// ------------------------------------------------------------------------------------------------
// math/big.Int modelled as one SMT Int per object

func (e *Engine) bigOf(v Value) *Term {
	p := v.(*Ptr)
	if p.s == nil {
		e.x.goPanic(nil, nil, "nil *big.Int dereference")
	}
	if t, ok := p.s.ext.(*Term); ok {
		return t
	}
	return e.b.IntI(0)
}

func (e *Engine) setBig(v Value, t *Term) Value {
	p := v.(*Ptr)
	if p.s == nil {
		e.x.goPanic(nil, nil, "nil *big.Int dereference")
	}
	e.setExt(p.s, t)
	return v
}

var bigIntType types.Type

func (e *Engine) newBig(t *Term) Value {
	if bigIntType == nil {
		for _, p := range e.prog.AllPackages() {
			if p.Pkg.Path() == "math/big" {
				bigIntType = p.Pkg.Scope().Lookup("Int").Type()
			}
		}
	}
	s := e.newSlot(bigIntType)
	s.ext = t
	return &Ptr{s}
}

// asSignedBV recognises an Int term that is the signed (or unsigned, narrower than 64 bits) value of a bit-vector and
// returns that bit-vector sign/zero-extended to 64 bits, so that small big.Int values stay in bit-vector arithmetic
// (mixing Int and BV makes the solver slow or undecided).
func (e *Engine) asSignedBV(x *Term) (*Term, bool) {
	if x.op == OIntNeg {
		// the negation of a non-negative value with fewer than 64 magnitude bits cannot overflow
		if x.args[0].op == OBv2Nat && x.args[0].args[0].sort.W < 64 {
			return e.b.Neg(e.b.ZExt(x.args[0].args[0], 64)), true
		}
	}
	t, _, ok := e.asSignedBVw(x)
	return t, ok
}

// asSignedBVw additionally reports how many low bits can be non-sign bits (the magnitude fits in that many bits).
func (e *Engine) asSignedBVw(x *Term) (*Term, int, bool) {
	if x.op == OBv2Nat && x.args[0].sort.W < 64 {
		return e.b.ZExt(x.args[0], 64), x.args[0].sort.W, true
	}
	t, ok := e.asSignedBV0(x)
	return t, 64, ok
}

func (e *Engine) asSignedBV0(x *Term) (*Term, bool) {
	if x.op == OIte && x.args[2].op == OBv2Nat && x.args[1].op == OIntSub && x.args[1].args[0] == x.args[2] && x.args[1].args[1].IsConst() {
		t := x.args[2].args[0]
		w := t.sort.W
		two := new(big.Int).Lsh(big.NewInt(1), uint(w))
		if w <= 64 && x.args[1].args[1].bigv.Cmp(two) == 0 && x.args[0] == e.b.Bin(OBvSLT, t, e.b.BVu(0, w)) {
			return e.b.SExt(t, 64), true
		}
	}
	return nil, false
}

func (e *Engine) intAbs(t *Term) *Term {
	return e.b.Ite(e.b.IntBin(OIntLT, t, e.b.IntI(0)), e.b.IntNeg(t), t)
}

func pow(base int64, k int) *big.Int {
	return new(big.Int).Exp(big.NewInt(base), big.NewInt(int64(k)), nil)
}

// countBelow returns the smallest k in [0,max] with |x| < base^k, forking; beyond max the path is outside the bound.
func (e *Engine) magnitudeClass(ax *Term, base int64, max int, what string) int {
	for k := 0; k <= max; k++ {
		if e.decide(e.b.IntBin(OIntLT, ax, e.b.IntC(pow(base, k)))) {
			return k
		}
	}
	e.x.sh.mu.Lock()
	e.x.sh.assumptions["bound: "+what+fmt.Sprintf(" magnitude < %d^%d (larger values outside the claim)", base, max)]++
	e.x.sh.mu.Unlock()
	panic(pathEnd{"big magnitude outside bound"})
}

func (e *Engine) cfgInt(name string, def int) int {
	if v, ok := e.cfg[name]; ok {
		return int(v)
	}
	return def
}

func initBig() {
	B := "(*math/big.Int)."
	reg := func(n string, f intrinsicFn) { intrinsics[B+n] = f }
	intrinsics["math/big.NewInt"] = func(e *Engine, f *frame, a []Value) Value {
		e.used("math/big.Int as SMT Int")
		return e.newBig(e.b.Bv2IntS(e.term(a[0])))
	}
	reg("Sign", func(e *Engine, f *frame, a []Value) Value {
		x := e.bigOf(a[0])
		b := e.b
		return b.Ite(b.IntBin(OIntLT, x, b.IntI(0)), b.BVi(-1, 64), b.Ite(b.Eq(x, b.IntI(0)), b.BVi(0, 64), b.BVi(1, 64)))
	})
	reg("Cmp", func(e *Engine, f *frame, a []Value) Value {
		x, y := e.bigOf(a[0]), e.bigOf(a[1])
		b := e.b
		if xb, ok := e.asSignedBV(x); ok {
			if yb, ok := e.asSignedBV(y); ok {
				return b.Ite(b.Bin(OBvSLT, xb, yb), b.BVi(-1, 64), b.Ite(b.Eq(xb, yb), b.BVi(0, 64), b.BVi(1, 64)))
			}
		}
		return b.Ite(b.IntBin(OIntLT, x, y), b.BVi(-1, 64), b.Ite(b.Eq(x, y), b.BVi(0, 64), b.BVi(1, 64)))
	})
	reg("CmpAbs", func(e *Engine, f *frame, a []Value) Value {
		x, y := e.intAbs(e.bigOf(a[0])), e.intAbs(e.bigOf(a[1]))
		b := e.b
		return b.Ite(b.IntBin(OIntLT, x, y), b.BVi(-1, 64), b.Ite(b.Eq(x, y), b.BVi(0, 64), b.BVi(1, 64)))
	})
	reg("Set", func(e *Engine, f *frame, a []Value) Value { return e.setBig(a[0], e.bigOf(a[1])) })
	reg("Neg", func(e *Engine, f *frame, a []Value) Value { return e.setBig(a[0], e.b.IntNeg(e.bigOf(a[1]))) })
	reg("Abs", func(e *Engine, f *frame, a []Value) Value { return e.setBig(a[0], e.intAbs(e.bigOf(a[1]))) })
	reg("Add", func(e *Engine, f *frame, a []Value) Value {
		return e.setBig(a[0], e.b.IntBin(OIntAdd, e.bigOf(a[1]), e.bigOf(a[2])))
	})
	reg("Sub", func(e *Engine, f *frame, a []Value) Value {
		return e.setBig(a[0], e.b.IntBin(OIntSub, e.bigOf(a[1]), e.bigOf(a[2])))
	})
	reg("Mul", func(e *Engine, f *frame, a []Value) Value {
		x, y := e.bigOf(a[1]), e.bigOf(a[2])
		// a small bit-vector-backed value times a small non-negative constant stays in bit-vector arithmetic
		for k := 0; k < 2; k++ {
			if xb, w, ok := e.asSignedBVw(x); ok && w < 64 && y.IsConst() && y.bigv.Sign() >= 0 && w+y.bigv.BitLen() <= 62 {
				prod := e.b.Bin(OBvMul, xb, e.b.BVu(y.bigv.Uint64(), 64))
				return e.setBig(a[0], e.b.Bv2Nat(e.b.Extract(prod, 62, 0)))
			}
			x, y = y, x
		}
		return e.setBig(a[0], e.b.IntBin(OIntMul, x, y))
	})
	// division: SMT-LIB div / mod on Int are Euclidean (0 <= remainder), which is big.Int.Div / Mod; Quo / Rem truncate
	// toward zero: sign(x)*sign(y)*(|x| div |y|)
	divZero := func(e *Engine, y *Term) {
		e.x.checkPanic(e.b.Eq(y, e.b.IntI(0)), nil, nil, "division by zero")
	}
	quo := func(e *Engine, x, y *Term) *Term {
		b := e.b
		q := b.IntBin(OIntDiv, e.intAbs(x), e.intAbs(y))
		neg := b.Not(b.Eq(b.IntBin(OIntLT, x, b.IntI(0)), b.IntBin(OIntLT, y, b.IntI(0))))
		return b.Ite(neg, b.IntNeg(q), q)
	}
	reg("Div", func(e *Engine, f *frame, a []Value) Value {
		x, y := e.bigOf(a[1]), e.bigOf(a[2])
		divZero(e, y)
		return e.setBig(a[0], e.b.IntBin(OIntDiv, x, y))
	})
	reg("Mod", func(e *Engine, f *frame, a []Value) Value {
		x, y := e.bigOf(a[1]), e.bigOf(a[2])
		divZero(e, y)
		return e.setBig(a[0], e.b.IntBin(OIntMod, x, y))
	})
	reg("Quo", func(e *Engine, f *frame, a []Value) Value {
		x, y := e.bigOf(a[1]), e.bigOf(a[2])
		divZero(e, y)
		return e.setBig(a[0], quo(e, x, y))
	})
	reg("Rem", func(e *Engine, f *frame, a []Value) Value {
		x, y := e.bigOf(a[1]), e.bigOf(a[2])
		divZero(e, y)
		return e.setBig(a[0], e.b.IntBin(OIntSub, x, e.b.IntBin(OIntMul, y, quo(e, x, y))))
	})
	reg("SetInt64", func(e *Engine, f *frame, a []Value) Value { return e.setBig(a[0], e.b.Bv2IntS(e.term(a[1]))) })
	reg("SetUint64", func(e *Engine, f *frame, a []Value) Value { return e.setBig(a[0], e.b.Bv2Nat(e.term(a[1]))) })
	reg("IsInt64", func(e *Engine, f *frame, a []Value) Value {
		x := e.bigOf(a[0])
		b := e.b
		if _, ok := e.asSignedBV(x); ok {
			return b.tt
		}
		lo := new(big.Int).Neg(pow(2, 63))
		return b.And(b.IntBin(OIntLE, b.IntC(lo), x), b.IntBin(OIntLT, x, b.IntC(pow(2, 63))))
	})
	reg("IsUint64", func(e *Engine, f *frame, a []Value) Value {
		x := e.bigOf(a[0])
		b := e.b
		return b.And(b.IntBin(OIntLE, b.IntI(0), x), b.IntBin(OIntLT, x, b.IntC(pow(2, 64))))
	})
	reg("Int64", func(e *Engine, f *frame, a []Value) Value {
		x := e.bigOf(a[0])
		// low 64 bits of |x| with the sign applied (Go's definition); equals int2bv of x in two's complement
		return e.b.Int2Bv(x, 64)
	})
	reg("Uint64", func(e *Engine, f *frame, a []Value) Value {
		x := e.bigOf(a[0])
		return e.b.Int2Bv(e.intAbs(x), 64)
	})
	reg("Exp", func(e *Engine, f *frame, a []Value) Value {
		x, y := e.bigOf(a[1]), e.bigOf(a[2])
		if m := a[3].(*Ptr); m.s != nil {
			panic(unsupported("big.Int.Exp with modulus"))
		}
		if !y.IsConst() {
			// fork over the feasible exponents up to the harness bound (cfg maxExp, default 64)
			mx := e.cfgInt("maxExp", 64)
			// an exponent that is a machine integer stays in bit-vector arithmetic (mixing Int and BV leaves queries undecided)
			yb, isBV := e.asSignedBV(y)
			lt0 := e.b.IntBin(OIntLT, y, e.b.IntI(0))
			eqK := func(k int) *Term { return e.b.Eq(y, e.b.IntI(int64(k))) }
			huge := e.b.IntBin(OIntLE, e.b.IntC(pow(2, 28)), y)
			if isBV {
				lt0 = e.b.Bin(OBvSLT, yb, e.b.BVi(0, 64))
				eqK = func(k int) *Term { return e.b.Eq(yb, e.b.BVi(int64(k), 64)) }
				huge = e.b.Bin(OBvSLE, e.b.BVi(1<<28, 64), yb)
			}
			if e.decide(lt0) {
				return e.setBig(a[0], e.b.IntI(1))
			}
			for k := 0; k <= mx; k++ {
				if e.decide(eqK(k)) {
					y = e.b.IntI(int64(k))
					break
				}
			}
			if !y.IsConst() {
				// an exponent the input can push to 2^28 or more is a resource event: the power alone has more than
				// 100 MB (native confirmation: > 64 MiB allocated, out of memory, or no answer within the replay timeout)
				if e.x.feasible(huge) == "sat" {
					e.x.report("alloc", "math/big.Int.Exp", e.userFunc(), "exponent taken from the input can reach 2^28 or more (a power of more than 100 MB)", huge)
					panic(pathEnd{"huge exp"})
				}
				e.x.sh.mu.Lock()
				e.x.sh.assumptions[fmt.Sprintf("bound: big.Int.Exp exponent <= %d (larger exponents outside the claim)", mx)]++
				e.x.sh.mu.Unlock()
				panic(pathEnd{"big exponent outside bound"})
			}
		}
		if y.bigv.Sign() <= 0 {
			return e.setBig(a[0], e.b.IntI(1))
		}
		if !y.bigv.IsInt64() || y.bigv.Int64() > 4096 {
			e.x.report("alloc", "math/big.Int.Exp", e.userFunc(), "exponent "+y.bigv.String()+" too large", e.b.tt)
			panic(pathEnd{"huge exp"})
		}
		r := e.b.IntI(1)
		for i := int64(0); i < y.bigv.Int64(); i++ {
			r = e.b.IntBin(OIntMul, r, x)
		}
		return e.setBig(a[0], r)
	})
	reg("BitLen", func(e *Engine, f *frame, a []Value) Value {
		x := e.bigOf(a[0])
		if x.IsConst() {
			return e.b.BVi(int64(x.bigv.BitLen()), 64)
		}
		ax := e.intAbs(x)
		nb := e.cfgInt("bigBytes", 12)
		// fork on the byte class first, then the bit position inside the top byte
		k := e.magnitudeClass(ax, 256, nb, "big.Int")
		if k == 0 {
			return e.b.BVi(0, 64)
		}
		for bit := 1; bit <= 8; bit++ {
			lim := new(big.Int).Lsh(big.NewInt(1), uint(8*(k-1)+bit))
			if bit == 8 || e.decide(e.b.IntBin(OIntLT, ax, e.b.IntC(lim))) {
				return e.b.BVi(int64(8*(k-1)+bit), 64)
			}
		}
		panic("unreachable")
	})
	reg("Bytes", func(e *Engine, f *frame, a []Value) Value {
		x := e.bigOf(a[0])
		ax := e.intAbs(x)
		k := e.magnitudeClass(ax, 256, e.cfgInt("bigBytes", 12), "big.Int")
		out := make([]*Term, k)
		for i := 0; i < k; i++ {
			q := ax
			if k-1-i > 0 {
				q = e.b.IntBin(OIntDiv, ax, e.b.IntC(pow(256, k-1-i)))
			}
			out[i] = e.b.Int2Bv(q, 8)
		}
		return e.byteSlice(out)
	})
	reg("SetBytes", func(e *Engine, f *frame, a []Value) Value {
		e.used("math/big.Int as SMT Int")
		bs := e.sliceBytes(a[1].(*SliceV))
		if len(bs) > 0 && len(bs) <= 7 {
			// up to 56 bits: keep the value as a bit-vector (no Int/BV mixing for small magnitudes)
			v := bs[0]
			for _, c := range bs[1:] {
				v = e.b.Concat(v, c)
			}
			return e.setBig(a[0], e.b.Bv2Nat(v))
		}
		r := e.b.IntI(0)
		for i, c := range bs {
			t := e.b.Bv2Nat(c)
			sh := len(bs) - 1 - i
			if sh > 0 {
				t = e.b.IntBin(OIntMul, e.b.IntC(pow(256, sh)), t)
			}
			r = e.b.IntBin(OIntAdd, r, t)
		}
		return e.setBig(a[0], r)
	})
	reg("String", func(e *Engine, f *frame, a []Value) Value {
		p := a[0].(*Ptr)
		if p.s == nil {
			return e.strConst("<nil>")
		}
		x := e.bigOf(a[0])
		if x.IsConst() {
			return e.strConst(x.bigv.String())
		}
		if xb, ok := e.asSignedBV(x); ok {
			return &StrV{b: e.fmtInt(xb, true)}
		}
		var out []*Term
		ax := x
		if e.decide(e.b.IntBin(OIntLT, x, e.b.IntI(0))) {
			out = append(out, e.b.BVu('-', 8))
			ax = e.b.IntNeg(x)
		}
		k := e.magnitudeClass(ax, 10, e.cfgInt("bigDigits", 12), "big.Int.String")
		if k == 0 {
			k = 1
		}
		for i := k - 1; i >= 0; i-- {
			q := ax
			if i > 0 {
				q = e.b.IntBin(OIntDiv, ax, e.b.IntC(pow(10, i)))
			}
			d := e.b.IntBin(OIntMod, q, e.b.IntI(10))
			out = append(out, e.b.Bin(OBvAdd, e.b.Int2Bv(d, 8), e.b.BVu('0', 8)))
		}
		return &StrV{b: out}
	})
	reg("SetString", func(e *Engine, f *frame, a []Value) Value {
		e.used("math/big.Int as SMT Int")
		s := a[1].(*StrV).b
		base := int64(e.concInt(e.term(a[2]), true, "SetString base", 0, 36, nil))
		fail := Tuple{nilPtr, e.b.ff}
		if base != 2 && base != 10 && base != 16 {
			panic(unsupported(fmt.Sprintf("big.Int.SetString base %d", base)))
		}
		neg := false
		if len(s) > 0 {
			if e.decide(e.b.Eq(s[0], e.b.BVu('-', 8))) {
				neg = true
				s = s[1:]
			} else if e.decide(e.b.Eq(s[0], e.b.BVu('+', 8))) {
				s = s[1:]
			}
		}
		if len(s) == 0 {
			return fail
		}
		b := e.b
		r := b.IntI(0)
		smallDec := base == 10 && len(s) <= 18 // fits int64: keep the value in bit-vector arithmetic
		rb := b.BVu(0, 64)
		rng := func(c *Term, lo, hi byte) *Term {
			return b.And(b.Bin(OBvULE, b.BVu(uint64(lo), 8), c), b.Bin(OBvULE, c, b.BVu(uint64(hi), 8)))
		}
		for _, c := range s {
			var dv *Term
			hiDigit := byte('0' + base - 1)
			if base > 10 {
				hiDigit = '9'
			}
			switch {
			case e.decide(rng(c, '0', hiDigit)):
				dv = b.Bv2Nat(b.Bin(OBvSub, c, b.BVu('0', 8)))
			case base == 16 && e.decide(rng(c, 'a', 'f')):
				dv = b.Bv2Nat(b.Bin(OBvSub, c, b.BVu('a'-10, 8)))
			case base == 16 && e.decide(rng(c, 'A', 'F')):
				dv = b.Bv2Nat(b.Bin(OBvSub, c, b.BVu('A'-10, 8)))
			default:
				return fail
			}
			r = b.IntBin(OIntAdd, b.IntBin(OIntMul, b.IntI(base), r), dv)
			if smallDec {
				rb = b.Bin(OBvAdd, b.Bin(OBvMul, rb, b.BVu(10, 64)), b.ZExt(b.Bin(OBvSub, c, b.BVu('0', 8)), 64))
			}
		}
		if smallDec {
			if neg {
				rb = b.Neg(rb)
			}
			return Tuple{e.setBig(a[0], b.Bv2IntS(rb)), e.b.tt}
		}
		if neg {
			r = b.IntNeg(r)
		}
		return Tuple{e.setBig(a[0], r), e.b.tt}
	})
}

// newNumError builds a *strconv.NumError{Func, Num, Err: strconv.<sentinel>} inside the interpreter.
func (e *Engine) newNumError(fn, num, sentinel string) Value {
	var pkg *ssa.Package
	for _, p := range e.prog.AllPackages() {
		if p.Pkg.Path() == "strconv" {
			pkg = p
		}
	}
	if pkg == nil {
		panic(unsupported("strconv not loaded"))
	}
	nt := pkg.Pkg.Scope().Lookup("NumError").Type()
	s := e.newSlot(nt)
	e.store(s.kids[0], e.strConst(fn))
	e.store(s.kids[1], e.strConst(num))
	g := pkg.Members[sentinel].(*ssa.Global)
	e.store(s.kids[2], e.load(e.global(g)))
	return &Iface{t: types.NewPointer(nt), v: &Ptr{s}}
}

// floatSyntaxOK decides (forking on symbolic characters) whether s is accepted by strconv.ParseFloat's decimal
// syntax: [+-]? ( digits [. digits*] | . digits ) ( [eE] [+-]? digits )?   or  [+-]? (inf|infinity|nan), any case.
// Underscores and hexadecimal floats are syntax errors here (base-prefixed forms never reach this call from ion-go).
func (e *Engine) floatSyntaxOK(s []*Term) bool {
	b := e.b
	is := func(c *Term, ch byte) bool { return e.decide(b.Eq(c, b.BVu(uint64(ch), 8))) }
	isDigit := func(c *Term) bool {
		return e.decide(b.And(b.Bin(OBvULE, b.BVu('0', 8), c), b.Bin(OBvULE, c, b.BVu('9', 8))))
	}
	isLetter := func(c *Term, ch byte) bool { return is(c, ch) || is(c, ch-32) }
	i := 0
	if i < len(s) && (is(s[i], '+') || is(s[i], '-')) {
		i++
	}
	word := func(w string) bool {
		if len(s)-i != len(w) {
			return false
		}
		for k := 0; k < len(w); k++ {
			if !isLetter(s[i+k], w[k]) {
				return false
			}
		}
		return true
	}
	if len(s)-i == 3 || len(s)-i == 8 {
		if i < len(s) && !isDigit(s[i]) && !is(s[i], '.') {
			return word("inf") || word("nan") || word("infinity")
		}
	}
	nd := 0
	for i < len(s) && isDigit(s[i]) {
		i++
		nd++
	}
	if i < len(s) && is(s[i], '.') {
		i++
		for i < len(s) && isDigit(s[i]) {
			i++
			nd++
		}
	}
	if nd == 0 {
		return false
	}
	if i < len(s) && (is(s[i], 'e') || is(s[i], 'E')) {
		i++
		if i < len(s) && (is(s[i], '+') || is(s[i], '-')) {
			i++
		}
		ne := 0
		for i < len(s) && isDigit(s[i]) {
			i++
			ne++
		}
		if ne == 0 {
			return false
		}
	}
	return i == len(s)
}
