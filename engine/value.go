package main

import (
	"fmt"
	"go/types"

	"golang.org/x/tools/go/ssa"
)

type Value interface{}

type Slot struct {
	typ  types.Type
	val  Value
	kids []*Slot
	init bool // created during package init (write barrier)
	parent *Slot
	pidx int
}

type Ptr struct{ s *Slot } // s==nil: nil pointer
type SymPtr struct {
	base *Slot
	off, n int
	idx *Term
}
type SliceV struct {
	arr           *Slot // array slot (kids = elements)
	off, len, cap int
}
type StrV struct{ b []*Term }
type StructV struct{ f []Value }
type ArrayV struct{ e []Value }
type Tuple []Value
type Iface struct {
	t types.Type // nil => nil interface
	v Value
}
type FuncV struct {
	fn   *ssa.Function
	free []Value
	bi   *ssa.Builtin
}
type MapEntry struct {
	k, v Value
}
type MapObj struct {
	ents []MapEntry
}
type MapV struct{ m *MapObj } // m==nil: nil map
type IterV struct {
	m   *MapObj
	pos int
	str *StrV
}
type Opaque struct{ what string }

func (e *Engine) zero(t types.Type) Value {
	switch u := t.Underlying().(type) {
	case *types.Basic:
		switch {
		case u.Info()&types.IsBoolean != 0:
			return e.b.Bool(false)
		case u.Info()&types.IsInteger != 0:
			return e.b.BVu(0, intWidth(u))
		case u.Info()&types.IsString != 0:
			return &StrV{}
		case u.Info()&types.IsFloat != 0:
			return e.b.BVu(0, floatWidth(u))
		case u.Kind() == types.UnsafePointer:
			return &Ptr{}
		}
	case *types.Pointer:
		return &Ptr{}
	case *types.Slice:
		return &SliceV{}
	case *types.Struct:
		f := make([]Value, u.NumFields())
		for i := range f {
			f[i] = e.zero(u.Field(i).Type())
		}
		return &StructV{f}
	case *types.Array:
		el := make([]Value, u.Len())
		for i := range el {
			el[i] = e.zero(u.Elem())
		}
		return &ArrayV{el}
	case *types.Interface:
		return &Iface{}
	case *types.Map:
		return &MapV{}
	case *types.Signature:
		return &FuncV{}
	case *types.Chan:
		return &Opaque{"chan"}
	case *types.Tuple:
		tv := make(Tuple, u.Len())
		for i := range tv {
			tv[i] = e.zero(u.At(i).Type())
		}
		return tv
	}
	panic(unsupported(fmt.Sprintf("zero value of %v", t)))
}

func intWidth(b *types.Basic) int {
	switch b.Kind() {
	case types.Int8, types.Uint8:
		return 8
	case types.Int16, types.Uint16:
		return 16
	case types.Int32, types.Uint32:
		return 32
	case types.UntypedRune:
		return 32
	default:
		return 64
	}
}
func floatWidth(b *types.Basic) int {
	if b.Kind() == types.Float32 {
		return 32
	}
	return 64
}
func isSigned(t types.Type) bool {
	b, ok := t.Underlying().(*types.Basic)
	return ok && b.Info()&types.IsInteger != 0 && b.Info()&types.IsUnsigned == 0
}

func (e *Engine) newSlot(t types.Type) *Slot {
	s := &Slot{typ: t, init: e.inInit}
	switch u := t.Underlying().(type) {
	case *types.Struct:
		s.kids = make([]*Slot, u.NumFields())
		for i := range s.kids {
			s.kids[i] = e.newSlot(u.Field(i).Type())
		}
	case *types.Array:
		s.kids = make([]*Slot, u.Len())
		for i := range s.kids {
			s.kids[i] = e.newSlot(u.Elem())
			s.kids[i].parent, s.kids[i].pidx = s, i
		}
	default:
		s.val = e.zero(t)
	}
	return s
}

func (e *Engine) newArraySlot(elem types.Type, n int) *Slot {
	s := &Slot{typ: types.NewArray(elem, int64(n)), init: e.inInit}
	s.kids = make([]*Slot, n)
	for i := range s.kids {
		s.kids[i] = e.newSlot(elem)
		s.kids[i].parent, s.kids[i].pidx = s, i
	}
	return s
}

func (e *Engine) load(s *Slot) Value {
	if s.kids != nil || isAggregate(s.typ) {
		switch s.typ.Underlying().(type) {
		case *types.Struct:
			f := make([]Value, len(s.kids))
			for i, k := range s.kids {
				f[i] = e.load(k)
			}
			return &StructV{f}
		case *types.Array:
			el := make([]Value, len(s.kids))
			for i, k := range s.kids {
				el[i] = e.load(k)
			}
			return &ArrayV{el}
		}
	}
	return s.val
}

func isAggregate(t types.Type) bool {
	switch t.Underlying().(type) {
	case *types.Struct, *types.Array:
		return true
	}
	return false
}

func (e *Engine) store(s *Slot, v Value) {
	if s.init && !e.inInit {
		e.initWrites++
	}
	switch x := v.(type) {
	case *StructV:
		for i, k := range s.kids {
			e.store(k, x.f[i])
		}
		return
	case *ArrayV:
		for i, k := range s.kids {
			e.store(k, x.e[i])
		}
		return
	}
	s.val = v
}
