package ion

// C08: what a Reader returns does not depend on how the caller navigated. For every well-formed binary document of
// the stated shape (same family as H_C07_bin: n symbolic bytes at top level or as the body of a list / struct /
// annotation wrapper, validated by refBinValid), the top-level values seen by a navigation program that skips values
// without reading them (mode 1), steps into each container and straight out (mode 2) or steps in, reads one child and
// steps out (mode 3) - each sprinkled with calls the Reader must refuse (StepOut at top level, StepIn on a scalar or
// null, accessors of the wrong type) - are identical to those of a plain full traversal.

func vSameSym(a, b vSym) bool {
	return a.present == b.present && a.hasText == b.hasText && a.text == b.text && a.sid == b.sid && a.err == b.err
}

func vSameBytes(a, b []byte) bool {
	if len(a) != len(b) {
		return false
	}
	for i := range a {
		if a[i] != b[i] {
			return false
		}
	}
	return true
}

// vSameHead compares what is visible without reading the scalar payload.
func vSameHead(a, b vEv) bool {
	if a.typ != b.typ || a.null != b.null || !vSameSym(a.field, b.field) || len(a.ann) != len(b.ann) || a.annErr != b.annErr {
		return false
	}
	for i := range a.ann {
		if !vSameSym(a.ann[i], b.ann[i]) {
			return false
		}
	}
	return true
}

func vSamePayload(a, b vEv) bool {
	return a.accErr == b.accErr && a.b == b.b && a.isBig == b.isBig && a.i == b.i && a.f == b.f && a.s == b.s &&
		vSameBytes(a.bs, b.bs) && vSameSym(a.sym, b.sym)
}

func vIsContainer(ev vEv) bool {
	return !ev.null && (ev.typ == ListType || ev.typ == SexpType || ev.typ == StructType)
}

func H_C08_bin() {
	n := vparam("n", 1)
	mode := vparam("mode", 1)
	b := vnondetBytes(n)
	switch kind := vparam("kind", 0); kind {
	case 0xB, 0xC:
		b = vCat(vTLV(byte(kind)<<4, b...), []byte{0x20})
	case 0xD:
		b = vCat(vTLV(0xD0, vCat([]byte{0x84}, b)...), []byte{0x20})
	case 0xE:
		b = vCat(vTLV(0xE0, vCat([]byte{0x81, 0x84}, b)...), []byte{0x20})
	}
	ok, p := refBinValid(b, 9)
	vassume(ok && !p.grey && !p.ts) // C08 quantifies over valid documents
	doc := vWithBVM(b)

	var full []vEv
	r1 := NewReaderBytes(doc)
	vTraverse(r1, 0, 8, false, &full)
	vassume(r1.Err() == nil) // acceptance itself is C03/C07 (H_C07_bin)
	var top []vEv
	for _, ev := range full {
		if ev.depth == 0 {
			top = append(top, ev)
		}
	}

	r := NewReaderBytes(doc)
	k := 0
	for r.Next() {
		vassert(k < len(top), "navigation does not invent values")
		vassert(r.StepOut() != nil, "StepOut at top level is refused")
		var ev vEv
		if mode == 1 {
			ev = vEv{typ: r.Type(), null: r.IsNull()}
			ev.field = vSymOf(r.FieldName())
			as, err := r.Annotations()
			ev.annErr = err != nil
			for i := range as {
				ev.ann = append(ev.ann, vSymOf(&as[i], nil))
			}
			vassert(vSameHead(ev, top[k]), "skipped value shows the same type, nullness and annotations")
		} else {
			vPoke(r)
			ev = vReadCurrent(r, 0)
			vassert(vSameHead(ev, top[k]) && vSamePayload(ev, top[k]), "value identical after refused calls")
		}
		if vIsContainer(ev) {
			if mode >= 2 {
				vassert(r.StepIn() == nil, "StepIn on a container succeeds")
				if mode == 3 {
					if r.Next() {
						vPoke(r)
						vcover("child")
					}
				}
				if mode == 4 {
					// run to the end of the container, then ask once more: the extra Next must be a no-op
					for r.Next() {
					}
					vassert(!r.Next(), "Next stays false at the end of a container")
					vcover("child")
				}
				vassert(r.StepOut() == nil, "StepOut succeeds")
				if top[k].after != 0 {
					vassert(vObserveState(r) == top[k].after, "after StepOut the Reader shows what a full traversal shows after StepOut")
				}
				vcover("container")
			}
		} else {
			vassert(r.StepIn() != nil, "StepIn on a scalar or null is refused")
			vassert(r.Err() == nil, "a refused call does not poison the Reader")
		}
		k++
	}
	vassert(r.Err() == nil, "navigation ends without error on a valid document")
	vassert(k == len(top), "navigation sees every top-level value")
	vobserve("ntop", uint64(k))
	vcover("end")
}

// ---- text ------------------------------------------------------------------------------------------------------
// H_C08_text: the text Reader reads scalars eagerly but skips container contents with a second grammar (skipper.go)
// when the caller does not step in or steps out early. A frame (param frame) embeds k symbolic bytes X over an
// alphabet of structural characters in a container followed by the value 2:
//   0 [X] 2    1 (X) 2    2 {a:X} 2    3 ["X"] 2    4 [{{X==}}] 2    5 ['''X'''] 2    6 [{{"X"}}] 2    7 [/*X*/1] 2
// For every X for which a plain full traversal succeeds, skipping the container (mode 1), stepping in and straight
// out (mode 2) and stepping in, reading one child and stepping out (mode 3) must all arrive at the same second
// top-level value with no error, and a full traversal through a second Reader must be unaffected.

func vC08Alpha(c byte) bool {
	switch c {
	case '"', '\'', '{', '}', '[', ']', '(', ')', '\\', '/', '*', 'a', '1', ',', ':', ' ', '+', '=', '\n':
		return true
	}
	return false
}

func vC08Frame(frame int, x []byte) []byte {
	switch frame {
	case 0:
		return vCat([]byte("["), x, []byte("] 2"))
	case 1:
		return vCat([]byte("("), x, []byte(") 2"))
	case 2:
		return vCat([]byte("{a:"), x, []byte("} 2"))
	case 3:
		return vCat([]byte("[\""), x, []byte("\"] 2"))
	case 4:
		return vCat([]byte("[{{"), x, []byte("==}}] 2"))
	case 5:
		return vCat([]byte("['''"), x, []byte("'''] 2"))
	case 6:
		return vCat([]byte("[{{\""), x, []byte("\"}}] 2"))
	default:
		return vCat([]byte("[/*"), x, []byte("*/1] 2"))
	}
}

func H_C08_text() {
	k := vparam("k", 2)
	mode := vparam("mode", 1)
	x := vnondetBytes(k)
	for _, c := range x {
		if vparam("alpha", 0) == 1 {
			// operator characters against comment introducers: longer runs over a small alphabet
			vassume(c == '*' || c == '/' || c == '+' || c == 'a' || c == ' ' || c == '\n')
		} else {
			vassume(vC08Alpha(c))
		}
	}
	doc := vC08Frame(vparam("frame", 0), x)
	// plain full traversal defines what the document holds (C08 quantifies over valid documents)
	var full []vEv
	r1 := NewReaderBytes(doc)
	se := vTraverse(r1, 0, 8, false, &full)
	vassume(!se && r1.Err() == nil)
	var top []vEv
	for _, ev := range full {
		if ev.depth == 0 {
			top = append(top, ev)
		}
	}
	r := NewReaderBytes(doc)
	n := 0
	for r.Next() {
		vassert(n < len(top), "navigation does not invent values")
		ev := vReadCurrent(r, 0)
		vassert(vSameHead(ev, top[n]) && vSamePayload(ev, top[n]), "top-level value identical whatever happened to the previous one")
		if vIsContainer(ev) && mode >= 2 {
			vassert(r.StepIn() == nil, "StepIn on a container succeeds")
			if mode == 3 && r.Next() {
				vPoke(r)
				vcover("child")
			}
			if mode == 4 {
				for r.Next() {
				}
				vassert(!r.Next(), "Next stays false at the end of a container")
				vcover("child")
			}
			vassert(r.StepOut() == nil, "StepOut succeeds on a valid document")
			vcover("container")
		}
		n++
	}
	vassert(r.Err() == nil, "navigation ends without error on a valid document")
	vassert(n == len(top), "navigation sees every top-level value")
	vobserve("ntop", uint64(n))
	vcover("end")
}
