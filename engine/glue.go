package main

import (
	"go/types"

	"golang.org/x/tools/go/ssa"
)

func ssaByte() types.Type { return types.Typ[types.Uint8] }
func ssaErrT() types.Type { return types.NewPointer(types.NewStruct(nil, nil)) }

// initGlobals runs the package initializer of ion, tolerating unsupported pieces.
func (e *Engine) initGlobals() {
	e.inInit = true
	defer func() { e.inInit = false }()
	for _, dep := range []string{"errors", "io", "unicode/utf8", "math/bits", "strconv", "bytes", "bufio", "strings", "encoding/binary"} {
		for _, p := range e.prog.AllPackages() {
			if p.Pkg.Path() == dep {
				if fi := p.Func("init"); fi != nil {
					e.curInitPkg = p
					e.runInit(fi)
				}
			}
		}
	}
	e.curInitPkg = e.pkg
	init := e.pkg.Func("init")
	// execute init but skip calls to other packages' init and anything unsupported
	defer func() {
		if r := recover(); r != nil {
			// leave remaining globals zero
			_ = r
		}
	}()
	e.runInit(init)
}

func (e *Engine) runInit(fn *ssa.Function) {
	// interpret init block by block, ignoring failures of individual instructions
	f := &frame{fn: fn, env: map[ssa.Value]Value{}, loops: map[*ssa.BasicBlock]int{}}
	blk := fn.Blocks[0]
	var prev *ssa.BasicBlock
	for blk != nil {
		var next *ssa.BasicBlock
		for _, ins := range blk.Instrs {
			switch in := ins.(type) {
			case *ssa.If:
				c := e.get(f, in.Cond).(*Term)
				if c.ConstBool() {
					next = blk.Succs[0]
				} else {
					next = blk.Succs[1]
				}
			case *ssa.Jump:
				next = blk.Succs[0]
			case *ssa.Return:
				return
			case *ssa.Phi:
				for i, p := range blk.Preds {
					if p == prev {
						f.env[in] = e.get(f, in.Edges[i])
					}
				}
			case *ssa.Call:
				if cf, ok := in.Call.Value.(*ssa.Function); ok && cf.Name() == "init" && cf.Pkg != e.curInitPkg {
					continue // other package's init
				}
				func() {
					defer func() {
						if r := recover(); r != nil {
							f.env[in] = &Opaque{"init failure"}
						}
					}()
					e.exec(f, ins)
				}()
			default:
				func() {
					defer func() {
						if r := recover(); r != nil {
							if v, ok := ins.(ssa.Value); ok {
								f.env[v] = &Opaque{"init failure"}
							}
						}
					}()
					e.exec(f, ins)
				}()
			}
		}
		prev, blk = blk, next
	}
}
