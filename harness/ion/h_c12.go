package ion

import (
	"math/big"
	"time"
)

// C12: any Writer call sequence ends in a correct stream or an error.
//
// A symbolic program of L calls (each call chosen by a solver variable from a 14-letter alphabet, with symbolic
// arguments) is run against the real Writer in one of four configurations (param config: 0 compact text, 1 pretty
// text, 2 binary with a growing local symbol table, 3 binary with a fixed local symbol table) next to a small
// reference automaton of the documented Writer protocol (container stack, pending field name, pending annotations).
// Assertions:
//   (a) no call panics (every Go panic condition is a solver query in the engine);
//   (b) once a call other than Finish has returned an error every later call, Finish included, returns an error;
//   (c) a call the protocol forbids (value inside a struct without a field name, End of the wrong container kind,
//       FieldName outside a struct, an invalid symbol token) returns an error;
//   (d) if the final Finish returns nil the emitted bytes are a valid stream whose values are exactly those of the
//       calls that returned nil, in order (binary: independent validator refBinValid + read back; text: read back),
//       including when Finish was called earlier in the program (a second batch);
//   (e) the same program run on a second, fresh Writer emits the same bytes.
// A field name that is pending when its struct is closed ends with that struct: it never names a value of another
// container (param prefix=1 starts the symbolic calls inside {a:{ to reach this with three calls).
// Outside: a pending annotation at the moment of an End/Finish call (the API does not say whether it is dropped or
// carried over; such programs are assumed away), nil pointer arguments, programs longer than L.

type vSink struct {
	buf    []byte
	writes int
	failAt int // index of the first Write call that fails; <0: never
	once   bool // only that one Write fails (a transient fault); later Writes are accepted again
	failed bool
}

type vSinkErr struct{}

func (vSinkErr) Error() string { return "sink failure" }

var vErrSink error = vSinkErr{}

func (s *vSink) Write(p []byte) (int, error) {
	if s.failAt >= 0 && (s.writes == s.failAt || (s.writes > s.failAt && !s.once)) {
		s.writes++
		s.failed = true
		return 0, vErrSink
	}
	s.writes++
	s.buf = append(s.buf, p...)
	return len(p), nil
}

// expected event of the reference automaton
type vWEv struct {
	depth    int
	typ      Type
	null     bool
	i        int64
	sym      string
	hasField bool
	nann     int
}

type vWModel struct {
	stack     []Type
	haveField bool
	nann      int
	dead      bool // a non-Finish call has returned an error
	evs       []vWEv
}

func (m *vWModel) inStruct() bool {
	return len(m.stack) > 0 && m.stack[len(m.stack)-1] == StructType
}

// valueLegal: may a value (or container start) be written now?
func (m *vWModel) valueLegal() bool {
	return !m.inStruct() || m.haveField
}

func (m *vWModel) record(ev vWEv) {
	ev.depth = len(m.stack)
	ev.hasField = m.inStruct()
	ev.nann = m.nann
	m.evs = append(m.evs, ev)
	m.haveField = false
	m.nann = 0
}

const (
	vOpInt = iota
	vOpSymStr
	vOpSymTok
	vOpNull
	vOpNullType
	vOpField
	vOpAnn
	vOpBeginList
	vOpEndList
	vOpBeginSexp
	vOpEndSexp
	vOpBeginStruct
	vOpEndStruct
	vOpFinish
	vNumOps
)

func vNewWriter(config int, out *vSink) Writer {
	switch config {
	case 0:
		return NewTextWriter(out)
	case 1:
		return NewTextWriterOpts(out, TextWriterPretty)
	case 2:
		return NewBinaryWriter(out)
	default:
		return NewBinaryWriterLST(out, NewLocalSymbolTable(nil, []string{"a"}))
	}
}

type vWCall struct {
	op  int
	arg uint8
}

// vApply performs one call on the real Writer and returns its error.
func vApply(w Writer, c vWCall) error {
	a := "a"
	switch c.op {
	case vOpInt:
		return w.WriteInt(int64(int8(c.arg)))
	case vOpSymStr:
		return w.WriteSymbolFromString("a")
	case vOpSymTok:
		switch c.arg {
		case 0:
			return w.WriteSymbol(SymbolToken{Text: &a, LocalSID: SymbolIDUnknown})
		case 1:
			return w.WriteSymbol(SymbolToken{LocalSID: 4})
		default:
			return w.WriteSymbol(SymbolToken{LocalSID: SymbolIDUnknown})
		}
	case vOpNull:
		return w.WriteNull()
	case vOpNullType:
		return w.WriteNullType(Type(c.arg))
	case vOpField:
		return w.FieldName(SymbolToken{Text: &a, LocalSID: SymbolIDUnknown})
	case vOpAnn:
		return w.Annotation(SymbolToken{Text: &a, LocalSID: SymbolIDUnknown})
	case vOpBeginList:
		return w.BeginList()
	case vOpEndList:
		return w.EndList()
	case vOpBeginSexp:
		return w.BeginSexp()
	case vOpEndSexp:
		return w.EndSexp()
	case vOpBeginStruct:
		return w.BeginStruct()
	case vOpEndStruct:
		return w.EndStruct()
	default:
		return w.Finish()
	}
}

func vModelMatchesRef(x vWEv, e rEv) bool {
	if e.depth != x.depth || e.typ != x.typ || e.null != x.null || e.hasField != x.hasField || len(e.ann) != x.nann {
		return false
	}
	if x.hasField && !(e.field.known && e.field.text == "a") {
		return false
	}
	for _, a := range e.ann {
		if !(a.known && a.text == "a") {
			return false
		}
	}
	if x.null {
		return true
	}
	switch x.typ {
	case IntType:
		m := rStripZeros(e.mag)
		if len(m) > 1 {
			return false
		}
		v := int64(0)
		if len(m) == 1 {
			v = int64(m[0])
		}
		if e.neg {
			v = -v
		}
		return v == x.i
	case SymbolType:
		return e.sym.known && e.sym.text == x.sym
	}
	return true
}

func vContainerOf(op int) Type {
	switch op {
	case vOpBeginList, vOpEndList:
		return ListType
	case vOpBeginSexp, vOpEndSexp:
		return SexpType
	}
	return StructType
}

func H_C12_prog() {
	config := vparam("config", 2)
	L := vparam("L", 2)
	batches := vparam("batches", 0) // 1: the program is  op.. Finish op.. (a Finish is forced in the middle)
	prog := make([]vWCall, 0, L+4)
	if vparam("prefix", 0) == 1 {
		// the symbolic calls start inside a struct that is itself a field of a struct: {a:{ ...
		prog = append(prog, vWCall{op: vOpBeginStruct}, vWCall{op: vOpField}, vWCall{op: vOpBeginStruct})
	}
	for i := 0; i < L; i++ {
		var c vWCall
		if (batches == 1 && i == L/2) || (batches == 2 && i == vparam("finishAt", 1)) {
			c.op = vOpFinish
		} else {
			c.op = vnondetInt(0, vNumOps-1)
			if batches == 2 && i == 0 {
				// the "rejected Finish" shape: a container is opened first, so the forced Finish is refused
				vassume(c.op == vOpBeginList || c.op == vOpBeginSexp || c.op == vOpBeginStruct)
			}
		}
		switch c.op {
		case vOpInt:
			c.arg = vnondetU8()
		case vOpNullType:
			c.arg = vnondetU8()
			// Type values above StructType are not Ion types; the call must still not panic (checked), its outcome
			// is not modelled, so one representative invalid value is kept.
			vassume(c.arg <= uint8(StructType) || c.arg == 200)
		case vOpSymTok:
			c.arg = uint8(vnondetInt(0, 2))
		}
		prog = append(prog, c)
	}
	out := &vSink{failAt: -1}
	w := vNewWriter(config, out)
	m := &vWModel{}
	for _, c := range prog {
		err := vApply(w, c)
		if m.dead {
			vassert(err != nil, "after an error every later call returns an error")
			continue
		}
		illegal := false
		switch c.op {
		case vOpInt, vOpSymStr, vOpSymTok, vOpNull, vOpNullType, vOpBeginList, vOpBeginSexp, vOpBeginStruct:
			illegal = !m.valueLegal() || (c.op == vOpSymTok && c.arg == 2)
			if c.op == vOpNullType && c.arg > uint8(StructType) {
				// not an Ion type: either outcome is accepted, but a nil result must have written some null
				if err == nil {
					vassume(false)
				}
				illegal = true
			}
		case vOpField:
			illegal = !m.inStruct()
		case vOpEndList, vOpEndSexp, vOpEndStruct:
			illegal = len(m.stack) == 0 || m.stack[len(m.stack)-1] != vContainerOf(c.op)
			// a pending annotation at End is outside the claim (the API does not say whether it is dropped or carried
			// over); a pending field name belongs to the struct it was set in and ends with it
			vassume(illegal || m.nann == 0)
		case vOpFinish:
			illegal = len(m.stack) != 0
			vassume(illegal || (m.nann == 0 && !m.haveField))
		}
		if illegal {
			vassert(err != nil, "a call the protocol forbids returns an error")
		}
		if err != nil {
			if c.op != vOpFinish {
				m.dead = true
			}
			continue
		}
		// the call succeeded: update the automaton
		switch c.op {
		case vOpInt:
			m.record(vWEv{typ: IntType, i: int64(int8(c.arg))})
		case vOpSymStr:
			m.record(vWEv{typ: SymbolType, sym: "a"})
		case vOpSymTok:
			if c.arg == 0 {
				m.record(vWEv{typ: SymbolType, sym: "a"})
			} else {
				m.record(vWEv{typ: SymbolType, sym: "name"})
			}
		case vOpNull:
			m.record(vWEv{typ: NullType, null: true})
		case vOpNullType:
			t := Type(c.arg)
			if t == NoType {
				t = NullType
			}
			m.record(vWEv{typ: t, null: true})
		case vOpField:
			m.haveField = true
		case vOpAnn:
			m.nann++
		case vOpBeginList, vOpBeginSexp, vOpBeginStruct:
			m.record(vWEv{typ: vContainerOf(c.op)})
			m.stack = append(m.stack, vContainerOf(c.op))
		case vOpEndList, vOpEndSexp, vOpEndStruct:
			m.stack = m.stack[:len(m.stack)-1]
			m.haveField = false
		}
	}
	ferr := w.Finish()
	if m.dead {
		vassert(ferr != nil, "Finish reports an earlier error")
		vcover("dead")
	}
	if len(m.stack) != 0 {
		vassert(ferr != nil, "Finish inside a container returns an error")
	}
	if ferr == nil {
		// a field name pending at the final Finish is outside the claim; an annotation pending at the final Finish has
		// no value to attach to: whether Finish refuses or drops it is not specified, but if Finish succeeds the stream
		// must still be correct, i.e. hold exactly the values written (checked below)
		vassume(!m.haveField)
		enc := out.buf
		if config >= 2 {
			if len(m.evs) > 0 {
				vassert(len(enc) >= 4 && enc[0] == 0xE0 && enc[1] == 0x01 && enc[2] == 0x00 && enc[3] == 0xEA, "binary output starts with the version marker")
			}
			if len(enc) > 0 {
				d, ok := refBinDecode(enc, nil)
				vassert(ok, "binary output is well-formed under the independent decoder")
				vassert(!d.undef, "every symbol ID used is defined by a table earlier in the stream")
				us := d.user()
				vassert(len(us) == len(m.evs), "the independent decoder finds exactly the values of the calls that succeeded")
				for i := range us {
					vassert(vModelMatchesRef(m.evs[i], us[i]), "the independent decoder recovers each written value")
				}
			}
		}
		r := NewReaderBytes(enc)
		var evs []vEv
		stepErr := vTraverse(r, 0, 8, false, &evs)
		vassert(!stepErr && r.Err() == nil, "a stream finished without error is read without error")
		vassert(len(evs) == len(m.evs), "the stream holds exactly the values of the calls that succeeded")
		for i := range evs {
			g, x := evs[i], m.evs[i]
			vassert(g.depth == x.depth && g.typ == x.typ && g.null == x.null, "value order, nesting, type and nullness survive")
			vassert(!g.accErr && !g.annErr && !g.field.err, "accessors succeed on the written values")
			if x.typ == IntType && !x.null {
				vassert(!g.isBig && g.i == x.i, "integer survives")
			}
			if x.typ == SymbolType && !x.null {
				vassert(g.sym.hasText && g.sym.text == x.sym, "symbol text survives")
			}
			vassert(g.field.present == x.hasField, "field name present exactly inside structs")
			if x.hasField {
				vassert(g.field.hasText && g.field.text == "a", "field name survives")
			}
			vassert(len(g.ann) == x.nann, "annotation count survives")
			for _, an := range g.ann {
				vassert(an.hasText && an.text == "a", "annotation text survives")
			}
		}
		vcover("finished")
		if len(m.evs) > 0 {
			vcover("values")
		}
	}
	// (e) determinism: the same program on a fresh Writer emits the same bytes
	out2 := &vSink{failAt: -1}
	w2 := vNewWriter(config, out2)
	for _, c := range prog {
		vApply(w2, c)
	}
	w2.Finish()
	vassert(vSameBytes(out.buf, out2.buf), "the same call sequence yields the same bytes")
	vobserve("outlen", uint64(len(out.buf)))
	vcover("end")
}

// ---- every Writer method, one at a time ------------------------------------------------------------------------
// H_C12_methods: for each of the 24 value/annotation methods of the Writer interface (chosen by a solver variable):
//   prefix 0: on a fresh Writer the method succeeds and, after Finish, the stream holds exactly that one value;
//   prefix 1: after a failed call (EndList at top level) the method and the final Finish return an error;
//   prefix 2: inside a struct without a field name the method (a value) returns an error, and so does everything after.

const vNumMethods = 21

func vCallMethod(w Writer, m int, u uint8) (err error, typ Type, isValue bool) {
	a := "a"
	tok := SymbolToken{Text: &a, LocalSID: SymbolIDUnknown}
	switch m {
	case 0:
		return w.WriteNull(), NullType, true
	case 1:
		return w.WriteNullType(IntType), IntType, true
	case 2:
		return w.WriteBool(u&1 == 1), BoolType, true
	case 3:
		return w.WriteInt(int64(int8(u))), IntType, true
	case 4:
		return w.WriteUint(uint64(u)), IntType, true
	case 5:
		return w.WriteBigInt(big.NewInt(int64(int8(u)))), IntType, true
	case 6:
		return w.WriteFloat(1.5), FloatType, true
	case 7:
		return w.WriteDecimal(NewDecimalInt(int64(int8(u)))), DecimalType, true
	case 8:
		return w.WriteTimestamp(NewDateTimestamp(time.Date(2001, 2, 3, 0, 0, 0, 0, time.UTC), TimestampPrecisionDay)), TimestampType, true
	case 9:
		return w.WriteSymbol(tok), SymbolType, true
	case 10:
		return w.WriteSymbolFromString("a"), SymbolType, true
	case 11:
		return w.WriteString("s"), StringType, true
	case 12:
		return w.WriteClob(vC12Lob(u)), ClobType, true
	case 13:
		return w.WriteBlob(vC12Lob(u)), BlobType, true
	case 14:
		return w.BeginList(), ListType, true
	case 15:
		return w.BeginSexp(), SexpType, true
	case 16:
		return w.BeginStruct(), StructType, true
	case 17:
		return w.Annotation(tok), NoType, false
	case 18:
		return w.Annotations(tok, tok), NoType, false
	case 19:
		return w.FieldName(tok), NoType, false
	default:
		return w.EndList(), NoType, false
	}
}

// vC12Lob: a one-byte payload, or (param lob=n) an n-byte payload whose first byte is symbolic (64 bytes and more take
// a separate path in the binary Writer).
func vC12Lob(u uint8) []byte {
	n := vparam("lob", 1)
	bs := make([]byte, n)
	for i := range bs {
		bs[i] = byte(i)
	}
	bs[0] = u
	return bs
}

func H_C12_methods() {
	config := vparam("config", 2)
	prefix := vparam("prefix", 0)
	m := vnondetInt(0, vNumMethods-1)
	u := vnondetU8()
	out := &vSink{failAt: -1}
	w := vNewWriter(config, out)
	switch prefix {
	case 1:
		vassert(w.EndList() != nil, "EndList at top level is refused")
	case 2:
		vassert(w.BeginStruct() == nil, "BeginStruct succeeds")
	case 3:
		vassume(m <= 16) // a value method
		a := "a"
		vassert(w.Annotation(SymbolToken{Text: &a, LocalSID: SymbolIDUnknown}) == nil, "Annotation succeeds")
	}
	err, typ, isValue := vCallMethod(w, m, u)
	switch prefix {
	case 3:
		// an annotated value of every kind, followed by a sibling: the annotation wraps exactly the one value
		vassert(err == nil && isValue, "the annotated value is written")
		switch m {
		case 14:
			vassert(w.EndList() == nil, "matching End succeeds")
		case 15:
			vassert(w.EndSexp() == nil, "matching End succeeds")
		case 16:
			vassert(w.EndStruct() == nil, "matching End succeeds")
		}
		vassert(w.WriteInt(7) == nil, "a sibling value follows")
		vassert(w.Finish() == nil, "Finish succeeds")
		r := NewReaderBytes(out.buf)
		vassert(r.Next() && r.Type() == typ, "the stream holds the annotated value")
		as, aerr := r.Annotations()
		vassert(aerr == nil && len(as) == 1, "with its one annotation")
		if m == 12 || m == 13 {
			bs, berr := r.ByteValue()
			vassert(berr == nil && vSameBytes(bs, vC12Lob(u)), "and its payload")
		}
		vassert(r.Next() && r.Type() == IntType, "then the sibling")
		as, aerr = r.Annotations()
		vassert(aerr == nil && len(as) == 0, "which carries no annotation")
		vassert(!r.Next() && r.Err() == nil, "and nothing else")
		if config >= 2 {
			d, ok := refBinDecode(out.buf, nil)
			vassert(ok && !d.undef, "binary output well-formed and self-contained under the independent decoder")
			us := d.user()
			vassert(len(us) >= 2 && us[0].typ == typ && len(us[0].ann) == 1 && us[0].depth == 0, "the independent decoder finds the annotated value")
			vassert(us[len(us)-1].typ == IntType && us[len(us)-1].depth == 0 && len(us[len(us)-1].ann) == 0, "and the sibling at top level")
		}
		vcover("ok")
	case 0:
		if m == 19 || m == 20 {
			vassert(err != nil, "FieldName / EndList at top level is refused")
			vassert(w.Finish() != nil, "Finish reports the earlier error")
			vcover("refused")
			break
		}
		vassert(err == nil, "the call succeeds on a fresh Writer")
		if m >= 14 && m <= 16 { // close the container again
			var e2 error
			switch m {
			case 14:
				e2 = w.EndList()
			case 15:
				e2 = w.EndSexp()
			default:
				e2 = w.EndStruct()
			}
			vassert(e2 == nil, "matching End succeeds")
		}
		if !isValue {
			vassert(w.WriteInt(7) == nil, "a value can follow an annotation")
			typ = IntType
		}
		vassert(w.Finish() == nil, "Finish succeeds")
		r := NewReaderBytes(out.buf)
		vassert(r.Next(), "the stream holds a value")
		vassert(r.Type() == typ, "of the written type")
		vassert(r.IsNull() == (m <= 1), "with the written nullness")
		as, aerr := r.Annotations()
		want := 0
		if m == 17 {
			want = 1
		} else if m == 18 {
			want = 2
		}
		vassert(aerr == nil && len(as) == want, "and the written annotations")
		vassert(!r.Next() && r.Err() == nil, "and nothing else")
		if config >= 2 {
			d, ok := refBinDecode(out.buf, nil)
			vassert(ok && !d.undef, "binary output well-formed and self-contained under the independent decoder")
			us := d.user()
			vassert(len(us) == 1 && us[0].typ == typ && len(us[0].ann) == want, "the independent decoder finds the one value written")
		}
		vcover("ok")
	case 1:
		vassert(err != nil, "after an error every call returns an error")
		vassert(w.Finish() != nil, "and so does Finish")
		vcover("dead")
	case 2:
		if isValue {
			vassert(err != nil, "a value inside a struct without a field name is refused")
			vassert(w.EndStruct() != nil, "later calls keep failing")
			vassert(w.Finish() != nil, "Finish reports the earlier error")
			vcover("nofield")
		}
	}
	vcover("end")
}
