package ion

import "math/big"

// C14: decimal arithmetic is exact; decimal text round-trips.
//
// Coefficients are unbounded: vnondetBigInt is a solver variable of sort Int and math/big is modelled in the
// engine as exact integer arithmetic, so Add/Sub/Mul/Cmp are checked for coefficients of every size. Scales are
// symbolic int32 values whose difference is a forked constant in [-D, D] (only the power of ten 10^|d| depends on
// it). Exactness is checked by cross-multiplying to the larger scale: no division, no rounding anywhere.

func vPow10(k int) *big.Int {
	r := big.NewInt(1)
	ten := big.NewInt(10)
	for i := 0; i < k; i++ {
		r = new(big.Int).Mul(r, ten)
	}
	return r
}

// vDiffOf returns the concrete value of x (forking) if it lies in [lo,hi]; ok=false otherwise.
func vDiffOf(x int64, lo, hi int) (int, bool) {
	for k := lo; k <= hi; k++ {
		if x == int64(k) {
			return k, true
		}
	}
	return 0, false
}

// vScaled returns n * 10^k (k >= 0).
func vScaled(n *big.Int, k int) *big.Int {
	return new(big.Int).Mul(n, vPow10(k))
}

// vSameValue: does the decimal r denote exactly num * 10^(-scale)? (scale symbolic; r.scale within D of it)
func vSameValue(r *Decimal, num *big.Int, scale int64, D int) bool {
	d, ok := vDiffOf(int64(r.scale)-scale, -D, D)
	if !ok {
		return false
	}
	if d >= 0 {
		// r has the larger scale: r.n == num * 10^d
		return r.n.Cmp(vScaled(num, d)) == 0
	}
	return vScaled(r.n, -d).Cmp(num) == 0
}

func H_C14_arith() {
	D := vparam("D", 24)
	op := vparam("op", 0)
	an, bn := vnondetBigInt(), vnondetBigInt()
	sa := int32(vnondetU32())
	diff := vnondetInt(-D, D)
	sb64 := int64(sa) + int64(diff)
	vassume(sb64 >= -(1<<31) && sb64 < 1<<31)
	sb := int32(sb64)
	a := NewDecimal(an, -sa, false)
	b := NewDecimal(bn, -sb, false)
	vassume(sa != -(1<<31) && sb != -(1<<31)) // NewDecimal negates the exponent; MinInt32 has no negation (outside: C13 covers exponent range)
	// common scale = the larger one
	s := int64(sa)
	ka, kb := 0, 0
	if diff > 0 {
		s = sb64
		ka = diff
	} else {
		kb = -diff
	}
	A, B := vScaled(an, ka), vScaled(bn, kb) // a = A * 10^-s, b = B * 10^-s
	switch op {
	case 0:
		r := a.Add(b)
		vassert(vSameValue(r, new(big.Int).Add(A, B), s, D), "Add is exact")
	case 1:
		r := a.Sub(b)
		vassert(vSameValue(r, new(big.Int).Sub(A, B), s, D), "Sub is exact")
	case 2:
		c := a.Cmp(b)
		want := A.Cmp(B)
		vassert(c == want, "Cmp agrees with exact comparison")
		vassert(a.Equal(b) == (want == 0), "Equal agrees with exact comparison")
		vassert(a.Sign() == an.Sign(), "Sign is the sign of the value")
	case 3:
		sum := int64(sa) + int64(sb)
		vassume(sum >= -(1<<31) && sum < 1<<31) // result exponent representable (documented panic otherwise)
		r := a.Mul(b)
		vassert(int64(r.scale) == sum && r.n.Cmp(new(big.Int).Mul(an, bn)) == 0, "Mul is exact")
	case 4:
		r := a.Neg()
		vassert(vSameValue(r, new(big.Int).Neg(an), int64(sa), 0), "Neg is exact")
		q := a.Abs()
		vassert(vSameValue(q, new(big.Int).Abs(an), int64(sa), 0), "Abs is exact")
	case 5:
		shift := int(int32(vnondetU32()))
		ns := int64(sa) - int64(shift)
		vassume(ns >= -(1<<31) && ns < 1<<31)
		r := a.ShiftL(shift)
		vassert(int64(r.scale) == ns && r.n.Cmp(an) == 0, "ShiftL multiplies by 10^shift exactly")
		ns2 := int64(sa) + int64(shift)
		vassume(ns2 >= -(1<<31) && ns2 < 1<<31)
		q := a.ShiftR(shift)
		vassert(int64(q.scale) == ns2 && q.n.Cmp(an) == 0, "ShiftR divides by 10^shift exactly")
	}
	vcover("end")
}

// refDecimalLiteral: is s a valid Ion decimal literal, and which (coefficient digits, exponent, sign) does it denote?
// Grammar (Ion 1.0 text): '-'? ( '0' | [1-9][0-9]* ) ( '.' [0-9]* )? ( [dD] [+-]? [0-9]+ )?  with at least one of '.' / 'd'.
func refDecimalLiteral(s string) (ok bool, neg bool, digits []byte, exp int64) {
	i := 0
	if i < len(s) && s[i] == '-' {
		neg = true
		i++
	}
	if i >= len(s) || s[i] < '0' || s[i] > '9' {
		return false, false, nil, 0
	}
	if s[i] == '0' {
		digits = append(digits, '0')
		i++
		if i < len(s) && s[i] >= '0' && s[i] <= '9' {
			return false, false, nil, 0 // leading zero
		}
	} else {
		for i < len(s) && s[i] >= '0' && s[i] <= '9' {
			digits = append(digits, s[i])
			i++
		}
	}
	marked := false
	if i < len(s) && s[i] == '.' {
		marked = true
		i++
		for i < len(s) && s[i] >= '0' && s[i] <= '9' {
			digits = append(digits, s[i])
			exp--
			i++
		}
	}
	if i < len(s) && (s[i] == 'd' || s[i] == 'D') {
		marked = true
		i++
		eneg := false
		if i < len(s) && (s[i] == '+' || s[i] == '-') {
			eneg = s[i] == '-'
			i++
		}
		if i >= len(s) {
			return false, false, nil, 0
		}
		e := int64(0)
		for i < len(s) && s[i] >= '0' && s[i] <= '9' {
			if e > 1<<40 {
				return false, false, nil, 0
			}
			e = e*10 + int64(s[i]-'0')
			i++
		}
		if eneg {
			e = -e
		}
		exp += e
	}
	if i != len(s) || !marked {
		return false, false, nil, 0
	}
	return true, neg, digits, exp
}

func vDigitsValue(d []byte) int64 {
	v := int64(0)
	for _, c := range d {
		v = v*10 + int64(c-'0')
	}
	return v
}

// Formatting and parsing back: the text is a valid Ion decimal literal denoting the same coefficient, exponent and
// negative-zero flag, and ParseDecimal recovers them. Coefficient |n| < 10^digits (param), scale symbolic in [-S, S].
func H_C14_text() {
	S := vparam("S", 6)
	lim := int64(vparam("lim", 1000))
	n := int64(int16(vnondetU16()))
	vassume(n > -lim && n < lim)
	scale := int32(vnondetInt(-S, S))
	negZero := vnondetBool()
	if negZero {
		vassume(n == 0)
	}
	d := NewDecimal(big.NewInt(n), -scale, negZero)
	str := d.String()
	ok, neg, digits, exp := refDecimalLiteral(str)
	vassert(ok, "String() is a valid Ion decimal literal")
	v := vDigitsValue(digits)
	if neg {
		v = -v
	}
	vassert(v == n && exp == -int64(scale), "the literal denotes the same coefficient and exponent")
	vassert(neg == (n < 0 || negZero), "the literal carries the sign, negative zero included")
	p, err := ParseDecimal(str)
	vassert(err == nil && p != nil, "ParseDecimal accepts the formatted text")
	vassert(p.n.Cmp(big.NewInt(n)) == 0 && p.scale == scale && p.isNegZero == negZero, "ParseDecimal recovers coefficient, exponent and negative-zero flag")
	vobserve("len", uint64(len(str)))
	vcover("end")
}

// Truncate cuts toward zero to p significant digits: for |n| < lim (param) and p in 1..4.
func H_C14_trunc() {
	lim := int64(vparam("lim", 1000))
	n := int64(int16(vnondetU16()))
	vassume(n > -lim && n < lim)
	sc := int32(vnondetU32())
	p := vnondetInt(1, 4)
	d := NewDecimal(big.NewInt(n), 0, false)
	d.scale = sc
	// number of significant digits of |n|
	m := n
	if m < 0 {
		m = -m
	}
	nd := 1
	for lim := int64(10); m >= lim; lim *= 10 {
		nd++
	}
	drop := nd - p
	if drop > 0 {
		vassume(int64(sc)-int64(drop) >= -(1 << 31)) // documented panic otherwise
	}
	r := d.Truncate(p)
	if drop <= 0 {
		vassert(r.n.Cmp(big.NewInt(n)) == 0 && r.scale == sc, "Truncate leaves short coefficients alone")
		vcover("short")
	} else {
		pw := int64(1)
		for i := 0; i < drop; i++ {
			pw *= 10
		}
		want := n / pw // Go division truncates toward zero
		vassert(r.n.IsInt64() && r.n.Int64() == want, "Truncate cuts the coefficient toward zero")
		vassert(int64(r.scale) == int64(sc)-int64(drop), "Truncate adjusts the exponent by the digits dropped")
		vcover("cut")
	}
	vcover("end")
}

// ParseDecimal exponent arithmetic: "<d>.<k digits>d<exp>": the result exponent is exp-k computed without wrapping,
// or an error.
func H_C14_parse() {
	k := vnondetInt(0, 3)
	last := vnondetU8()
	vassume(last >= '0' && last <= '9')
	var expStr string
	switch vnondetInt(0, 3) {
	case 0:
		expStr = "-214748364" + string([]byte{last})
	case 1:
		expStr = "214748364" + string([]byte{last})
	case 2:
		expStr = "-" + string([]byte{last})
	default:
		expStr = string([]byte{last})
	}
	frac := ""
	for i := 0; i < k; i++ {
		frac += "5"
	}
	in := "1." + frac + "d" + expStr
	ok, _, _, exp := refDecimalLiteral(in)
	vassert(ok, "harness builds valid literals")
	p, err := ParseDecimal(in)
	if err == nil {
		_, gexp := p.CoEx()
		vassert(int64(gexp) == exp, "ParseDecimal computes the exponent exactly or reports an error")
		vcover("ok")
	} else {
		e0 := exp + int64(k) // the exponent as written after 'd'
		vassert(exp < -(1<<31) || exp >= 1<<31 || e0 < -(1<<31) || e0 >= 1<<31, "every exponent that fits int32 is accepted")
		vcover("rejected")
	}
	vcover("end")
}
