package main

// Path exploration: depth-first by re-execution. A path is a list of decision events; the next path re-runs the
// harness from the start following the longest unexplored prefix. Work is shared between workers by decision prefix.

import (
	"fmt"
	"math/rand"
	"os"
	"sort"
	"strings"
	"sync"
	"time"

	"golang.org/x/tools/go/ssa"
)

type Event struct {
	Kind   int     // 0 two-way branch, 1 forced (assume), 2 k-way concretisation
	Choice int     // index into Alts
	Alts   []int64 // kind 0: 0 = condition true, 1 = condition false; kind 2: concrete values
}

type TapeEntry struct {
	W   int    `json:"w"`
	Val string `json:"v"` // decimal
}

type Violation struct {
	Harness string
	Kind    string // assert | panic | unwind | alloc | unsupported
	Where   string
	Msg     string
	Func    string // innermost function of the code under test (for panics)
	Tape    []TapeEntry
	KF      []string // known-finding regions the path is in
	Obs     []string
	// filled by replay
	Reproduced bool
	NativeOut  string
	ReplayDir  string
}

func (v Violation) key() string {
	return v.Kind + "|" + v.Where + "|" + v.Msg + "|" + strings.Join(v.KF, ",")
}

type Sample struct {
	Tape   []TapeEntry
	Obs    []string // expected observation log
	Events int
}

type Shared struct {
	mu       sync.Mutex
	cond     *sync.Cond
	queue    [][]Event
	idle     int
	nworkers int
	done     bool

	violations []Violation
	seen       map[string]bool
	covered    map[string]int
	samples    []Sample
	sampleN    int
	maxSamples int
	rng        *rand.Rand
	kfSeen     map[string]int // known-finding region -> feasible paths entering it

	Paths, Pruned, Unknown, Decisions, Steps int
	Inconclusive                             int
	funcs                                    map[string]int
	unsupported                              map[string]int
	assumptions                              map[string]int
	deadline                                 time.Time
	timedOut                                 bool
	maxViol                                  int
	maxLenSeen                               map[string]int
}

func NewShared(nw int, seed int64, deadline time.Time) *Shared {
	sh := &Shared{nworkers: nw, seen: map[string]bool{}, covered: map[string]int{}, funcs: map[string]int{}, unsupported: map[string]int{},
		maxSamples: 8, rng: rand.New(rand.NewSource(seed)), deadline: deadline, maxViol: 12, kfSeen: map[string]int{}, assumptions: map[string]int{}}
	sh.cond = sync.NewCond(&sh.mu)
	sh.queue = [][]Event{nil}
	return sh
}

func (sh *Shared) get() ([]Event, bool) {
	sh.mu.Lock()
	defer sh.mu.Unlock()
	for len(sh.queue) == 0 {
		if sh.done {
			return nil, false
		}
		sh.idle++
		if sh.idle == sh.nworkers {
			sh.done = true
			sh.cond.Broadcast()
			return nil, false
		}
		sh.cond.Wait()
		sh.idle--
		if sh.done {
			return nil, false
		}
	}
	it := sh.queue[len(sh.queue)-1]
	sh.queue = sh.queue[:len(sh.queue)-1]
	return it, true
}

func (sh *Shared) hungry() bool {
	sh.mu.Lock()
	defer sh.mu.Unlock()
	return sh.idle > 0 && len(sh.queue) < sh.idle
}

func (sh *Shared) put(items [][]Event) {
	sh.mu.Lock()
	sh.queue = append(sh.queue, items...)
	sh.cond.Broadcast()
	sh.mu.Unlock()
}

func (sh *Shared) stop() {
	sh.mu.Lock()
	sh.done = true
	sh.queue = nil
	sh.cond.Broadcast()
	sh.mu.Unlock()
}

type Explorer struct {
	e      *Engine
	s      *Solver
	b      *TermBank
	sh     *Shared
	name   string
	prefix []Event
	base   int
	events []Event
	synced int
	nondet []*Term
	hidden int // environment-stub variables of this path (not on the replay tape)
	hvars  []*Term
	model  *Model
	cache  map[int]evalVal
	kf     []string
	obs    []obsEntry
	labels []string

	asserts int
}

type obsEntry struct {
	label string
	t     *Term
}

var dbgPaths = os.Getenv("DBGPATHS") != ""

func (x *Explorer) pushAssert(c *Term) {
	if x.model != nil && x.b.Eval(c, x.model, x.cache).u == 0 {
		x.model = nil // stale: no longer a model of the path condition
	}
	i := len(x.events)
	if i >= x.synced {
		x.s.Push()
		x.s.Assert(c)
		x.synced++
	}
}

// feasible checks pc ∧ c
func (x *Explorer) feasible(c *Term) string {
	if x.model != nil {
		if x.b.Eval(c, x.model, x.cache).u != 0 {
			return "sat"
		}
	}
	x.s.Push()
	x.s.Assert(c)
	r := x.s.Check()
	if r == "sat" {
		x.model = x.s.Model(x.modelVars())
		x.cache = map[int]evalVal{}
	}
	x.s.Pop(1)
	if r == "unknown" {
		x.sh.mu.Lock()
		x.sh.Unknown++
		x.sh.mu.Unlock()
		if os.Getenv("VERIF_DEBUG") != "" {
			fmt.Fprintf(os.Stderr, "DEBUG unknown feasibility in %s (%s)\n", x.e.topFunc(), x.name)
		}
	}
	return r
}

func (x *Explorer) replaying() bool { return len(x.events) < len(x.prefix) }

func (x *Explorer) branch(c *Term) bool {
	i := len(x.events)
	var ev Event
	if i < len(x.prefix) {
		ev = x.prefix[i]
	} else {
		ev = Event{Kind: 0}
		if r := x.feasible(c); r != "unsat" {
			ev.Alts = append(ev.Alts, 0)
		}
		if r := x.feasible(x.b.Not(c)); r != "unsat" {
			ev.Alts = append(ev.Alts, 1)
		}
		if len(ev.Alts) == 0 {
			panic(pathEnd{"infeasible at branch"})
		}
	}
	cc := c
	if ev.Alts[ev.Choice] == 1 {
		cc = x.b.Not(c)
	}
	x.pushAssert(cc)
	x.events = append(x.events, ev)
	return ev.Alts[ev.Choice] == 0
}

// concretize forks over the feasible values of t in [lo, hi]; a value outside is reported through over().
func (x *Explorer) concretize(t *Term, sg bool, what string, lo, hi int64, over func(cond *Term)) int64 {
	i := len(x.events)
	var ev Event
	w := t.sort.W
	if i < len(x.prefix) {
		ev = x.prefix[i]
	} else {
		ev = Event{Kind: 2}
		var inRange *Term
		if sg {
			inRange = x.b.And(x.b.Bin(OBvSLE, x.b.BVi(lo, w), t), x.b.Bin(OBvSLE, t, x.b.BVi(hi, w)))
		} else {
			inRange = x.b.Bin(OBvULE, t, x.b.BVu(uint64(hi), w))
		}
		x.s.Push()
		x.s.Assert(inRange)
		for len(ev.Alts) <= 4096 {
			r := x.s.Check()
			if r != "sat" {
				if r == "unknown" {
					x.sh.mu.Lock()
					x.sh.Unknown++
					x.sh.mu.Unlock()
				}
				break
			}
			m := x.s.Model(x.modelVars())
			v := x.b.Eval(t, m, map[int]evalVal{})
			if sg {
				ev.Alts = append(ev.Alts, sext(v.u, w))
			} else {
				ev.Alts = append(ev.Alts, int64(v.u))
			}
			x.s.Assert(x.b.Not(x.b.Eq(t, x.b.BVu(v.u, w))))
		}
		x.s.Pop(1)
		if over != nil {
			out := x.b.Not(inRange)
			if r := x.feasible(out); r != "unsat" {
				over(out)
			}
		}
		if len(ev.Alts) == 0 {
			panic(pathEnd{"no feasible concrete value for " + what})
		}
		sort.Slice(ev.Alts, func(a, b int) bool { return ev.Alts[a] < ev.Alts[b] })
	}
	v := ev.Alts[ev.Choice]
	x.pushAssert(x.b.Eq(t, x.b.BVu(uint64(v), w)))
	x.events = append(x.events, ev)
	return v
}

func (x *Explorer) assume(c *Term) {
	if c.IsConst() {
		if !c.ConstBool() {
			panic(pathEnd{"assume false"})
		}
		return
	}
	i := len(x.events)
	if i >= len(x.prefix) {
		if x.feasible(c) == "unsat" {
			x.sh.mu.Lock()
			x.sh.Pruned++
			x.sh.mu.Unlock()
			panic(pathEnd{"assume infeasible"})
		}
	}
	x.pushAssert(c)
	x.events = append(x.events, Event{Kind: 1, Alts: []int64{0}})
}

func (x *Explorer) tapeFrom(m *Model) []TapeEntry {
	tape := make([]TapeEntry, len(x.nondet))
	for i, n := range x.nondet {
		if n.sort.K == SInt {
			v := m.ints[n.name]
			s := "0"
			if v != nil {
				s = v.String()
			}
			tape[i] = TapeEntry{W: 0, Val: s}
		} else {
			tape[i] = TapeEntry{W: n.sort.W, Val: fmt.Sprint(m.bv[n.name])}
		}
	}
	return tape
}

func (x *Explorer) obsUnder(m *Model) []string {
	cache := map[int]evalVal{}
	var out []string
	for _, o := range x.obs {
		if o.t == nil {
			out = append(out, o.label)
			continue
		}
		v := x.b.Eval(o.t, m, cache)
		if o.t.sort.K == SInt {
			out = append(out, o.label+"="+v.b.String())
		} else {
			out = append(out, fmt.Sprintf("%s=%d", o.label, v.u))
		}
	}
	return out
}

func (x *Explorer) report(kind, where, fn, msg string, cond *Term) {
	if x.e.inInit {
		return
	}
	v := Violation{Harness: x.name, Kind: kind, Where: where, Msg: msg, Func: fn, KF: append([]string{}, x.kf...)}
	key := v.key()
	x.sh.mu.Lock()
	dup := x.sh.seen[key] || len(x.sh.violations) >= x.sh.maxViol
	x.sh.mu.Unlock()
	if dup {
		return
	}
	x.s.Push()
	x.s.Assert(cond)
	r := x.s.Check()
	var m *Model
	if r == "sat" {
		m = x.s.Model(x.modelVars())
	}
	x.s.Pop(1)
	if r != "sat" {
		if r == "unknown" {
			x.sh.mu.Lock()
			x.sh.Inconclusive++
			x.sh.mu.Unlock()
		}
		return
	}
	v.Tape = x.tapeFrom(m)
	v.Obs = x.obsUnder(m)
	x.sh.mu.Lock()
	if !x.sh.seen[key] {
		x.sh.seen[key] = true
		x.sh.violations = append(x.sh.violations, v)
	}
	x.sh.mu.Unlock()
}

func pos(prog *ssa.Program, fn *ssa.Function, ins ssa.Instruction) string {
	name := "?"
	if fn != nil {
		name = fn.String()
	}
	if ins != nil && ins.Pos().IsValid() {
		p := prog.Fset.Position(ins.Pos())
		return fmt.Sprintf("%s (%s:%d)", name, p.Filename, p.Line)
	}
	return name
}

func (x *Explorer) vassert(c *Term, label string) {
	x.asserts++
	if c.IsConst() {
		if !c.ConstBool() {
			if !x.replaying() {
				x.report("assert", label, "", "assertion false on path", x.b.tt)
			}
			panic(pathEnd{"assert failed (concrete)"})
		}
		return
	}
	if !x.replaying() {
		nc := x.b.Not(c)
		if r := x.feasible(nc); r == "sat" {
			x.report("assert", label, "", "assertion can fail", nc)
		} else if r == "unknown" {
			if os.Getenv("VERIF_DEBUG") != "" {
				fmt.Fprintf(os.Stderr, "DEBUG unknown on assertion %q in %s\n", label, x.name)
			}
			x.sh.mu.Lock()
			x.sh.Inconclusive++
			x.sh.mu.Unlock()
		}
	}
	x.assume(c)
}

func fnName(fn *ssa.Function) string {
	if fn == nil {
		return "?"
	}
	return fn.String()
}

func (x *Explorer) checkPanic(failCond *Term, fn *ssa.Function, ins ssa.Instruction, msg string) {
	if failCond.IsConst() {
		if failCond.ConstBool() {
			x.goPanic(fn, ins, msg)
		}
		return
	}
	if !x.replaying() {
		if r := x.feasible(failCond); r == "sat" {
			x.report("panic", pos(x.e.prog, fn, ins), x.e.userFunc(), msg, failCond)
		} else if r == "unknown" {
			x.sh.mu.Lock()
			x.sh.Inconclusive++
			x.sh.mu.Unlock()
		}
	}
	x.assume(x.b.Not(failCond))
}

func (x *Explorer) goPanic(fn *ssa.Function, ins ssa.Instruction, msg string) {
	if !x.replaying() || true {
		x.report("panic", pos(x.e.prog, fn, ins), x.e.userFunc(), msg, x.b.tt)
	}
	panic(pathEnd{"go panic: " + msg})
}

func (x *Explorer) unwindFail(fn *ssa.Function, blk *ssa.BasicBlock) {
	x.report("unwind", fn.String()+" block "+blk.String(), x.e.userFunc(), "loop bound exceeded", x.b.tt)
	panic(pathEnd{"unwind"})
}

func (x *Explorer) newNondet(s Sort) *Term {
	var t *Term
	if s.K == SInt {
		t = x.b.Var(fmt.Sprintf("n%d_int", len(x.nondet)), s)
	} else {
		t = x.b.Var(fmt.Sprintf("n%d_%d", len(x.nondet), s.W), s)
	}
	x.nondet = append(x.nondet, t)
	return t
}

// newHidden makes a solver variable that stands for an answer of the environment (a stubbed library call). It is
// not part of the replay tape: the native run gets the real library's answer, which is one of the stub's answers.
func (x *Explorer) newHidden(s Sort) *Term {
	x.hidden++
	t := x.b.Var(fmt.Sprintf("h%d_%d", x.hidden, s.W), s)
	x.hvars = append(x.hvars, t)
	x.model = nil // the cached model does not know this variable
	return t
}

// modelVars: every solver variable of the path (tape variables first, then environment-stub variables).
func (x *Explorer) modelVars() []*Term {
	if len(x.hvars) == 0 {
		return x.nondet
	}
	return append(append([]*Term{}, x.nondet...), x.hvars...)
}

// known marks entry into a known-finding region (fork on cond).
func (x *Explorer) known(id string, c *Term) bool {
	var in bool
	if c.IsConst() {
		in = c.ConstBool()
	} else {
		in = x.branch(c)
	}
	if in {
		x.kf = append(x.kf, id)
	}
	return in
}

// runItem explores the subtree below the given decision prefix.
func (x *Explorer) runItem(fn *ssa.Function, item []Event) {
	x.prefix = item
	x.base = len(item)
	if x.synced > 0 {
		x.s.Pop(x.synced)
		x.synced = 0
	}
	for {
		x.events = x.events[:0]
		x.nondet = nil
		x.hidden = 0
		x.hvars = nil
		x.model = nil
		x.kf = nil
		x.obs = nil
		x.e.beginPath()
		completed := false
		func() {
			defer func() {
				if r := recover(); r != nil {
					switch v := r.(type) {
					case pathEnd:
						_ = v
					case unsupported:
						x.sh.mu.Lock()
						x.sh.unsupported[string(v)+" in "+x.e.userFunc()+"/"+x.e.topFunc()]++
						x.sh.mu.Unlock()
					default:
						panic(r)
					}
				}
			}()
			x.e.call(fn, nil, nil)
			completed = true
		}()
		x.e.endPath()
		x.sh.mu.Lock()
		if completed {
			if dbgPaths {
				var sb strings.Builder
				for _, ev := range x.events {
					fmt.Fprintf(&sb, "%d:%d/%d ", ev.Kind, ev.Choice, len(ev.Alts))
				}
				fmt.Println("PATH", sb.String())
			}
			x.sh.Paths++
			for _, k := range x.kf {
				x.sh.kfSeen[k]++
			}
		}
		x.sh.Decisions += len(x.events)
		x.sh.Steps += x.e.steps
		x.e.steps = 0
		for _, l := range x.labels {
			x.sh.covered[l]++
		}
		takeSample := false
		if completed && x.sh.maxSamples > 0 {
			x.sh.sampleN++
			if len(x.sh.samples) < x.sh.maxSamples {
				takeSample = true
			} else if x.sh.rng.Intn(x.sh.sampleN) < x.sh.maxSamples {
				takeSample = true
			}
		}
		timeUp := !x.sh.deadline.IsZero() && time.Now().After(x.sh.deadline)
		if timeUp {
			x.sh.timedOut = true
		}
		full := len(x.sh.violations) >= x.sh.maxViol
		x.sh.mu.Unlock()
		x.labels = x.labels[:0]
		if takeSample {
			x.sample()
		}
		if timeUp || full {
			x.sh.stop()
			return
		}
		// donate shallow alternatives when other workers are idle
		if x.sh.hungry() {
			for j := x.base; j < len(x.events); j++ {
				ev := x.events[j]
				if ev.Kind == 1 || ev.Choice+1 >= len(ev.Alts) {
					continue
				}
				var items [][]Event
				for k := ev.Choice + 1; k < len(ev.Alts); k++ {
					nev := ev
					nev.Choice = k
					items = append(items, append(append([]Event{}, x.events[:j]...), nev))
				}
				x.events[j].Alts = ev.Alts[:ev.Choice+1]
				x.sh.put(items)
				break
			}
		}
		// backtrack to the deepest event with an untried alternative
		i := len(x.events) - 1
		for ; i >= x.base; i-- {
			ev := x.events[i]
			if ev.Kind != 1 && ev.Choice+1 < len(ev.Alts) {
				nev := ev
				nev.Choice = ev.Choice + 1
				x.prefix = append(append([]Event{}, x.events[:i]...), nev)
				break
			}
		}
		if i < x.base {
			return
		}
		if x.synced > i {
			x.s.Pop(x.synced - i)
			x.synced = i
		}
	}
}

func (x *Explorer) sample() {
	r := x.s.Check()
	if r != "sat" {
		return
	}
	m := x.s.Model(x.modelVars())
	s := Sample{Tape: x.tapeFrom(m), Obs: x.obsUnder(m), Events: len(x.events)}
	x.sh.mu.Lock()
	if len(x.sh.samples) < x.sh.maxSamples {
		x.sh.samples = append(x.sh.samples, s)
	} else {
		x.sh.samples[x.sh.rng.Intn(len(x.sh.samples))] = s
	}
	x.sh.mu.Unlock()
}

func describe(v Violation) string {
	var tp []string
	for _, t := range v.Tape {
		tp = append(tp, t.Val)
	}
	return fmt.Sprintf("[%s] %s: %s kf=%v tape: %s", v.Kind, v.Where, v.Msg, v.KF, strings.Join(tp, " "))
}
