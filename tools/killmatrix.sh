#!/bin/sh
# usage: killmatrix.sh <mutant-dir-name> <ID>...   → appends result lines to /tmp/km/<mutant>.log
mkdir -p /tmp/km
m="$1"; shift
/verif/tools/mutant_check.sh /verif/seeded/$m/patch.diff "$@" > /tmp/km/$m.log 2>&1
