package ion

// C17 (partial): Unmarshal / Decoder.DecodeTo either fill the target faithfully or return an error - for SCALAR
// targets (every integer width, float32/64, string, bool, []byte, interface{}) and every Ion scalar; and the untyped
// Decoder.Decode over a stream. reflect is modelled in the engine for these target kinds only (reflect-lite, see
// engine/reflectlite.go); unmarshal.go is the code under test. Composite targets (structs, maps, slices, arrays,
// annotation wrappers, Timestamp/Decimal/big.Int targets) are outside.
//
// The Ion value is a binary document with symbolic content: an int of either sign with up to 2 symbolic magnitude bytes
// or a boundary magnitude (2^7, 2^8-1, 2^15, 2^16-1, 2^31, 2^32-1, 2^63-1, 2^63, 2^64-2, each and its successor); a float
// with 64 symbolic bits; a bool; a string / blob of symbolic bytes; a symbol by symbolic ID (0 = no text); a typed null.

type vIonScalar struct {
	doc   []byte
	typ   Type
	null  bool
	neg   bool
	mag   uint64 // int magnitude (fits 64 bits)
	fbits uint64
	b     bool
	s     []byte
	sid   uint8
}

var vC17Mags = []uint64{1 << 7, 1<<8 - 1, 1 << 15, 1<<16 - 1, 1 << 31, 1<<32 - 1, 1<<63 - 1, 1 << 63, 1<<64 - 2}

func vC17Source() vIonScalar {
	var v vIonScalar
	switch vnondetInt(0, 7) {
	case 0: // small int: 0..2 symbolic bytes
		n := vnondetInt(0, 2)
		body := vnondetBytes(n)
		v.typ, v.neg = IntType, vnondetBool()
		v.mag, _ = refUint(body)
		vassume(!(v.neg && v.mag == 0))
		code := byte(0x20)
		if v.neg {
			code = 0x30
		}
		v.doc = vTLV(code, body...)
	case 1: // boundary int
		v.typ, v.neg = IntType, vnondetBool()
		v.mag = vC17Mags[vnondetInt(0, len(vC17Mags)-1)]
		if vnondetBool() { // the boundary value and its successor, as two paths (keeps the magnitude concrete)
			v.mag++
		}
		var body []byte
		for i := 7; i >= 0; i-- {
			body = append(body, byte(v.mag>>(8*uint(i))))
		}
		code := byte(0x20)
		if v.neg {
			code = 0x30
		}
		v.doc = vTLV(code, body...)
	case 2:
		v.typ = FloatType
		body := vnondetBytes(8)
		for _, c := range body {
			v.fbits = v.fbits<<8 | uint64(c)
		}
		v.doc = vTLV(0x40, body...)
	case 3:
		v.typ, v.b = BoolType, vnondetBool()
		if v.b {
			v.doc = []byte{0x11}
		} else {
			v.doc = []byte{0x10}
		}
	case 4:
		v.typ = StringType
		v.s = vnondetBytes(vnondetInt(0, 2))
		vassume(refUTF8(v.s))
		v.doc = vTLV(0x80, v.s...)
	case 5:
		v.typ = BlobType
		v.s = vnondetBytes(vnondetInt(0, 2))
		v.doc = vTLV(0xA0, v.s...)
	case 6:
		v.typ = SymbolType
		v.sid = vnondetU8()
		vassume(v.sid <= 9)
		v.doc = []byte{0x71, v.sid}
	default:
		v.null = true
		t := vnondetInt(1, 10)
		v.typ = []Type{NullType, NullType, BoolType, IntType, NullType, FloatType, DecimalType, TimestampType, SymbolType, StringType, ClobType, BlobType}[t+1]
		code := []byte{0, 0, 1, 2, 0, 4, 5, 6, 7, 8, 9, 10}[t+1]
		v.doc = []byte{code<<4 | 0x0F}
	}
	return v
}

func (v vIonScalar) fitsSigned(bits uint) bool {
	if !v.neg {
		return v.mag>>(bits-1) == 0
	}
	return v.mag <= 1<<(bits-1)
}

func (v vIonScalar) signed() int64 {
	if v.neg {
		return -int64(v.mag)
	}
	return int64(v.mag)
}

func H_C17_scalar() {
	v := vC17Source()
	d := NewDecoder(NewReaderBytes(vWithBVM(v.doc)))
	kind := vparam("target", 0)
	var err error
	isInt := v.typ == IntType && !v.null
	switch kind {
	case 0:
		var x int8
		err = d.DecodeTo(&x)
		if err == nil && !v.null {
			vassert(isInt && v.fitsSigned(8) && int64(x) == v.signed(), "int8 holds exactly the Ion int or an error is returned")
		}
		if err == nil && v.null {
			vassert(x == 0, "a typed null leaves the zero value")
		}
	case 1:
		var x int16
		err = d.DecodeTo(&x)
		if err == nil && !v.null {
			vassert(isInt && v.fitsSigned(16) && int64(x) == v.signed(), "int16 holds exactly the Ion int or an error is returned")
		}
	case 2:
		var x int32
		err = d.DecodeTo(&x)
		if err == nil && !v.null {
			vassert(isInt && v.fitsSigned(32) && int64(x) == v.signed(), "int32 holds exactly the Ion int or an error is returned")
		}
	case 3:
		var x int64
		err = d.DecodeTo(&x)
		if err == nil && !v.null {
			vassert(isInt && v.fitsSigned(64) && x == v.signed(), "int64 holds exactly the Ion int or an error is returned")
		}
	case 4:
		var x int
		err = d.DecodeTo(&x)
		if err == nil && !v.null {
			vassert(isInt && v.fitsSigned(64) && int64(x) == v.signed(), "int holds exactly the Ion int or an error is returned")
		}
	case 5:
		var x uint8
		err = d.DecodeTo(&x)
		if err == nil && !v.null {
			vassert(isInt && !v.neg && v.mag>>8 == 0 && uint64(x) == v.mag, "uint8 holds exactly the Ion int or an error is returned")
		}
	case 6:
		var x uint16
		err = d.DecodeTo(&x)
		if err == nil && !v.null {
			vassert(isInt && !v.neg && v.mag>>16 == 0 && uint64(x) == v.mag, "uint16 holds exactly the Ion int or an error is returned")
		}
	case 7:
		var x uint32
		err = d.DecodeTo(&x)
		if err == nil && !v.null {
			vassert(isInt && !v.neg && v.mag>>32 == 0 && uint64(x) == v.mag, "uint32 holds exactly the Ion int or an error is returned")
		}
	case 8:
		var x uint64
		err = d.DecodeTo(&x)
		if err == nil && !v.null {
			vassert(isInt && !v.neg && x == v.mag, "uint64 holds exactly the Ion int or an error is returned")
		}
	case 9:
		var x uint
		err = d.DecodeTo(&x)
		if err == nil && !v.null {
			vassert(isInt && !v.neg && uint64(x) == v.mag, "uint holds exactly the Ion int or an error is returned")
		}
	case 10:
		var x float64
		err = d.DecodeTo(&x)
		if err == nil && !v.null {
			vassert(v.typ == FloatType && (vf64bits(x) == v.fbits || (x != x && vIsNaNBits(v.fbits))), "float64 holds exactly the Ion float or an error is returned")
		}
	case 11:
		var x float32
		err = d.DecodeTo(&x)
		if err == nil && !v.null {
			f := vf64frombits(v.fbits)
			finite := v.fbits&0x7FF0000000000000 != 0x7FF0000000000000
			vassert(v.typ == FloatType, "only an Ion float fills a float32")
			if finite {
				a := f
				if a < 0 {
					a = -a
				}
				vassert(a <= 3.40282346638528859811704183484516925440e+38, "a float that overflows float32 is an error")
				vassert(x == float32(f), "float32 holds the Ion float rounded to float32")
			}
		}
	case 12:
		var x string
		err = d.DecodeTo(&x)
		if err == nil && !v.null {
			switch v.typ {
			case StringType:
				vassert(x == string(v.s), "string holds the Ion string")
			case SymbolType:
				vassert(v.sid != 0 && x == rSystemSymbols[v.sid-1], "string holds the symbol's text; a symbol without text is an error")
			default:
				vassert(false, "only strings and symbols fill a string")
			}
		}
	case 13:
		var x bool
		err = d.DecodeTo(&x)
		if err == nil && !v.null {
			vassert(v.typ == BoolType && x == v.b, "bool holds the Ion bool or an error is returned")
		}
	case 14:
		var x []byte
		err = d.DecodeTo(&x)
		if err == nil && !v.null {
			vassert(v.typ == BlobType && vSameBytes(x, v.s), "[]byte holds the lob bytes or an error is returned")
		}
	default:
		var x interface{}
		err = d.DecodeTo(&x)
		if err == nil && v.null {
			vassert(x == nil, "a null decodes to nil in an interface{}")
		}
	}
	if err == nil {
		vcover("filled")
	} else {
		vcover("error")
	}
	vcover("end")
}

func vIsNaNBits(u uint64) bool {
	return u&0x7FF0000000000000 == 0x7FF0000000000000 && u&0x000FFFFFFFFFFFFF != 0
}

// H_C17_stream: the untyped Decoder over a stream of n values yields them one per call, in order, then ErrNoInput,
// and keeps reporting ErrNoInput. Values: small ints, bools, typed nulls, strings chosen by solver variables.
func H_C17_stream() {
	n := vnondetInt(0, vparam("n", 3))
	var doc []byte
	var kinds []int
	var vals []uint8
	for i := 0; i < n; i++ {
		k := vnondetInt(0, 3)
		x := vnondetU8()
		kinds = append(kinds, k)
		vals = append(vals, x)
		switch k {
		case 0:
			vassume(x != 0)
			doc = vCat(doc, []byte{0x21, x})
		case 1:
			doc = vCat(doc, []byte{0x10 | x&1})
		case 2:
			doc = vCat(doc, []byte{0x2F})
		default:
			vassume(x < 0x80)
			doc = vCat(doc, []byte{0x81, x})
		}
	}
	d := NewDecoder(NewReaderBytes(vWithBVM(doc)))
	for i := 0; i < n; i++ {
		got, err := d.Decode()
		vassert(err == nil, "each value of the stream is decoded")
		switch kinds[i] {
		case 0:
			iv, ok := got.(int)
			vassert(ok && iv == int(vals[i]), "ints come out in order as int")
		case 1:
			bv, ok := got.(bool)
			vassert(ok && bv == (vals[i]&1 == 1), "bools come out in order")
		case 2:
			vassert(got == nil, "a typed null decodes to nil")
		default:
			sv, ok := got.(*string)
			vassert(ok && sv != nil && *sv == string([]byte{vals[i]}), "strings come out in order")
		}
	}
	_, err := d.Decode()
	vassert(err == ErrNoInput, "after the last value the Decoder reports ErrNoInput")
	_, err = d.Decode()
	vassert(err == ErrNoInput, "and keeps reporting it")
	vcover("end")
}
