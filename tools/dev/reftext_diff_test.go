package ion

// Development aid (not a registered check): random short texts over structural alphabets are parsed by the
// specification-derived reference refTextParse and by ion-go natively; disagreements are printed for triage
// (reference bug, or candidate finding to be confirmed by the solver-based harnesses).

import (
	"fmt"
	"regexp"
	"math/rand"
	"os"
	"strconv"
	"testing"
)

func TestVerifRefTextDiff(t *testing.T) {
	alpha := os.Getenv("ALPHA")
	if alpha == "" {
		alpha = "a1 \"'{}[]():,.-+_/*\\\nTZdex0$n"
	}
	n, _ := strconv.Atoi(os.Getenv("N"))
	if n == 0 {
		n = 200000
	}
	maxLen, _ := strconv.Atoi(os.Getenv("MAXLEN"))
	if maxLen == 0 {
		maxLen = 7
	}
	var skip *regexp.Regexp
	if re := os.Getenv("SKIPRE"); re != "" {
		skip = regexp.MustCompile(re)
	}
	rng := rand.New(rand.NewSource(1))
	seen := map[string]bool{}
	shown := 0
	for i := 0; i < n && shown < 60; i++ {
		l := 1 + rng.Intn(maxLen)
		b := make([]byte, l)
		for j := range b {
			b[j] = alpha[rng.Intn(len(alpha))]
		}
		if seen[string(b)] || b[0] == 0xE0 || (skip != nil && skip.Match(b)) {
			continue
		}
		seen[string(b)] = true
		evs, ok, unsure := refTextParse(b)
		if unsure {
			continue
		}
		var got []vEv
		var gerr bool
		func() {
			defer func() {
				if r := recover(); r != nil {
					gerr = true
					fmt.Printf("PANIC %q: %v\n", b, r)
					shown++
				}
			}()
			r := NewReaderBytes(b)
			se := vTraverse(r, 0, 8, false, &got)
			gerr = se || r.Err() != nil
		}()
		if ok == gerr {
			fmt.Printf("ACCEPT-DIFF %q ref.ok=%v ion.err=%v\n", b, ok, gerr)
			shown++
			continue
		}
		if ok {
			if len(evs) != len(got) {
				fmt.Printf("COUNT-DIFF %q ref=%d ion=%d\n", b, len(evs), len(got))
				shown++
				continue
			}
			for k := range evs {
				if !tMatches(evs[k], got[k]) {
					fmt.Printf("VALUE-DIFF %q at %d ref=%+v ion=%+v\n", b, k, evs[k], got[k])
					shown++
					break
				}
			}
		}
	}
}
