package main

// Run-time values of the interpreter: concrete shapes, symbolic leaves.

import (
	"fmt"
	"go/types"

	"golang.org/x/tools/go/ssa"
)

type Value interface{}

type Slot struct {
	typ    types.Type
	val    Value
	kids   []*Slot // struct fields / array elements (array elements are created lazily)
	init   bool    // created during package init (writes are undo-logged)
	parent *Slot
	pidx   int
	e      *Engine
	leaf   bool  // struct type stored as one value (reflect.Value)
	ext    Value // model payload (math/big.Int -> *Term of sort Int, time.Time -> *timeModel)
}

type Ptr struct{ s *Slot } // s==nil: nil pointer
type SymPtr struct {
	base   *Slot
	off, n int
	idx    *Term
}
type SliceV struct {
	arr           *Slot // array slot (kids = elements)
	off, len, cap int
}
type StrV struct{ b []*Term }
type StructV struct {
	f   []Value
	ext Value
}
type ArrayV struct{ e []Value }
type Tuple []Value
type Iface struct {
	t types.Type // nil => nil interface
	v Value
}
type FuncV struct {
	fn   *ssa.Function
	free []Value
	bi   *ssa.Builtin
	intr func(args []Value) Value // engine-implemented method (reflect-lite)
}
type MapEntry struct {
	k, v Value
}
type MapObj struct {
	ents []MapEntry
}
type MapV struct{ m *MapObj } // m==nil: nil map
type IterV struct {
	m   *MapObj
	pos int
	str *StrV
}
type Opaque struct{ what string }

func (e *Engine) zero(t types.Type) Value {
	switch u := t.Underlying().(type) {
	case *types.Basic:
		switch {
		case u.Info()&types.IsBoolean != 0:
			return e.b.ff
		case u.Info()&types.IsInteger != 0:
			return e.b.BVu(0, intWidth(u))
		case u.Info()&types.IsString != 0:
			return emptyStr
		case u.Info()&types.IsFloat != 0:
			return e.b.BVu(0, floatWidth(u))
		case u.Kind() == types.UnsafePointer:
			return nilPtr
		case u.Kind() == types.UntypedNil:
			return nilPtr
		}
	case *types.Pointer:
		return nilPtr
	case *types.Slice:
		return &SliceV{}
	case *types.Struct:
		f := make([]Value, u.NumFields())
		for i := range f {
			f[i] = e.zero(u.Field(i).Type())
		}
		return &StructV{f: f}
	case *types.Array:
		el := make([]Value, u.Len())
		for i := range el {
			el[i] = e.zero(u.Elem())
		}
		return &ArrayV{el}
	case *types.Interface:
		return nilIface
	case *types.Map:
		return &MapV{}
	case *types.Signature:
		return &FuncV{}
	case *types.Chan:
		return &Opaque{"chan"}
	case *types.Tuple:
		tv := make(Tuple, u.Len())
		for i := range tv {
			tv[i] = e.zero(u.At(i).Type())
		}
		return tv
	}
	panic(unsupported(fmt.Sprintf("zero value of %v", t)))
}

var emptyStr = &StrV{}
var nilPtr = &Ptr{}
var nilIface = &Iface{}

func intWidth(b *types.Basic) int {
	switch b.Kind() {
	case types.Int8, types.Uint8:
		return 8
	case types.Int16, types.Uint16:
		return 16
	case types.Int32, types.Uint32:
		return 32
	case types.UntypedRune:
		return 32
	default:
		return 64
	}
}
func floatWidth(b *types.Basic) int {
	if b.Kind() == types.Float32 {
		return 32
	}
	return 64
}
func isSigned(t types.Type) bool {
	b, ok := t.Underlying().(*types.Basic)
	return ok && b.Info()&types.IsInteger != 0 && b.Info()&types.IsUnsigned == 0
}
func isFloat(t types.Type) bool {
	b, ok := t.Underlying().(*types.Basic)
	return ok && b.Info()&types.IsFloat != 0
}

func (e *Engine) newSlot(t types.Type) *Slot {
	s := &Slot{typ: t, init: e.inInit, e: e}
	if isReflValueType(t) {
		// a reflect.Value is one engine object (reflect-lite), not a struct of runtime internals
		s.leaf = true
		s.val = e.zero(t)
		return s
	}
	switch u := t.Underlying().(type) {
	case *types.Struct:
		s.kids = make([]*Slot, u.NumFields())
		for i := range s.kids {
			s.kids[i] = e.newSlot(u.Field(i).Type())
		}
	case *types.Array:
		s.kids = make([]*Slot, u.Len())
	default:
		s.val = e.zero(t)
	}
	return s
}

func (e *Engine) newArraySlot(elem types.Type, n int) *Slot {
	return &Slot{typ: types.NewArray(elem, int64(n)), init: e.inInit, e: e, kids: make([]*Slot, n)}
}

// kid returns the i-th element/field slot, creating array elements on demand.
func (s *Slot) kid(i int) *Slot {
	k := s.kids[i]
	if k == nil {
		at := s.typ.Underlying().(*types.Array)
		k = s.e.newSlot(at.Elem())
		k.init = s.init
		k.parent, k.pidx = s, i
		s.kids[i] = k
	}
	return k
}

func (e *Engine) load(s *Slot) Value {
	if s.leaf {
		return s.val
	}
	switch u := s.typ.Underlying().(type) {
	case *types.Struct:
		f := make([]Value, len(s.kids))
		for i, k := range s.kids {
			f[i] = e.load(k)
		}
		return &StructV{f: f, ext: s.ext}
	case *types.Array:
		el := make([]Value, len(s.kids))
		var z Value
		for i, k := range s.kids {
			if k == nil {
				if z == nil || isAggregate(u.Elem()) {
					z = e.zero(u.Elem())
				}
				el[i] = z
			} else {
				el[i] = e.load(k)
			}
		}
		return &ArrayV{el}
	}
	return s.val
}

func isAggregate(t types.Type) bool {
	switch t.Underlying().(type) {
	case *types.Struct, *types.Array:
		return true
	}
	return false
}

type undoRec struct {
	s   *Slot
	val Value
	ext Value
}

func (e *Engine) store(s *Slot, v Value) {
	if s.leaf {
		if s.init && !e.inInit {
			e.undo = append(e.undo, undoRec{s, s.val, s.ext})
		}
		s.val = v
		return
	}
	switch x := v.(type) {
	case *StructV:
		for i, k := range s.kids {
			e.store(k, x.f[i])
		}
		if s.init && !e.inInit {
			e.undo = append(e.undo, undoRec{s, s.val, s.ext})
		}
		s.ext = x.ext
		return
	case *ArrayV:
		for i := range s.kids {
			e.store(s.kid(i), x.e[i])
		}
		return
	}
	if s.init && !e.inInit {
		e.undo = append(e.undo, undoRec{s, s.val, s.ext})
	}
	s.val = v
}

func (e *Engine) setExt(s *Slot, v Value) {
	if s.init && !e.inInit {
		e.undo = append(e.undo, undoRec{s, s.val, s.ext})
	}
	s.ext = v
}

func isReflValueType(t types.Type) bool {
	n, ok := t.(*types.Named)
	return ok && n.Obj().Pkg() != nil && n.Obj().Pkg().Path() == "reflect" && n.Obj().Name() == "Value"
}
