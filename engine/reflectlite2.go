package main

// reflect-lite, part 2: composite targets (structs incl. embedded structs and tags, slices, arrays, maps, pointers)
// for ion/unmarshal.go, ion/fields.go and ion/marshal.go. Struct fields, array and slice elements are the
// interpreter's own storage slots, so Field / Index return settable views of the real variable; type questions
// (NumField, Field(i).Name/Tag/Anonymous/PkgPath, Key, Elem, Implements, AssignableTo) are answered by go/types.

import (
	"fmt"
	"go/types"
	"reflect"
)

func (e *Engine) reflPkgType(name string) types.Type {
	for _, p := range e.prog.AllPackages() {
		if p.Pkg.Path() == "reflect" {
			return p.Pkg.Scope().Lookup(name).Type()
		}
	}
	panic(unsupported("reflect not loaded"))
}

func reflQualifier(p *types.Package) string { return p.Name() }

func reflTypeString(t types.Type) string { return types.TypeString(t, reflQualifier) }

func reflTypeName(t types.Type) string {
	switch n := t.(type) {
	case *types.Named:
		return n.Obj().Name()
	case *types.Basic:
		return n.Name()
	case *types.Alias:
		return reflTypeName(types.Unalias(t))
	}
	return ""
}

// reflStructField builds the reflect.StructField value of field i of struct type st.
func (e *Engine) reflStructField(st *types.Struct, i int) Value {
	sft := e.reflPkgType("StructField")
	u := sft.Underlying().(*types.Struct)
	fld := st.Field(i)
	f := make([]Value, u.NumFields())
	for j := range f {
		switch u.Field(j).Name() {
		case "Name":
			f[j] = e.strConst(fld.Name())
		case "PkgPath":
			if fld.Exported() || fld.Pkg() == nil {
				f[j] = e.strConst("")
			} else {
				f[j] = e.strConst(fld.Pkg().Path())
			}
		case "Type":
			f[j] = e.reflTypeIface(fld.Type())
		case "Tag":
			f[j] = e.strConst(st.Tag(i))
		case "Index":
			arr := e.newArraySlot(types.Typ[types.Int], 1)
			e.store(arr.kid(0), e.b.BVi(int64(i), 64))
			f[j] = &SliceV{arr: arr, len: 1, cap: 1}
		case "Anonymous":
			f[j] = e.b.Bool(fld.Embedded())
		default:
			f[j] = e.zero(u.Field(j).Type())
		}
	}
	return &StructV{f: f}
}

func (e *Engine) reflLen(r *ReflVal, what string) int {
	switch v := e.reflGet(r).(type) {
	case *SliceV:
		return v.len
	case *ArrayV:
		return len(v.e)
	case *StrV:
		return len(v.b)
	case *MapV:
		if v.m == nil {
			return 0
		}
		return len(v.m.ents)
	}
	e.x.goPanic(nil, nil, "reflect: call of "+what+" on "+reflTypeString(r.typ))
	return 0
}

// reflElemSlot returns the storage slot of element i of a slice or an addressable array (nil if not addressable).
func (e *Engine) reflElem(r *ReflVal, i int, what string) *ReflVal {
	switch u := r.typ.Underlying().(type) {
	case *types.Slice:
		sv := e.reflGet(r).(*SliceV)
		if i < 0 || i >= sv.len {
			e.x.goPanic(nil, nil, "reflect: slice index out of range")
		}
		return &ReflVal{typ: u.Elem(), slot: sv.arr.kid(sv.off + i), canSet: !r.ro && !r.ero, ro: r.ro || r.ero}
	case *types.Array:
		if i < 0 || int64(i) >= u.Len() {
			e.x.goPanic(nil, nil, "reflect: array index out of range")
		}
		if r.slot != nil {
			return &ReflVal{typ: u.Elem(), slot: r.slot.kid(i), canSet: r.canSet, ro: r.ro || r.ero}
		}
		return &ReflVal{typ: u.Elem(), val: e.reflGet(r).(*ArrayV).e[i], ro: r.ro || r.ero}
	case *types.Basic:
		if sv, ok := e.reflGet(r).(*StrV); ok {
			if i < 0 || i >= len(sv.b) {
				e.x.goPanic(nil, nil, "reflect: string index out of range")
			}
			return &ReflVal{typ: types.Typ[types.Uint8], val: sv.b[i]}
		}
	}
	e.x.goPanic(nil, nil, "reflect: call of "+what+" on "+reflTypeString(r.typ))
	return nil
}

func init() {
	R := "(reflect.Value)."
	reg := func(n string, f intrinsicFn) { intrinsics[R+n] = f }
	cint := func(e *Engine, v Value, what string) int {
		return e.concInt(e.term(v), true, what, -1, 1<<20, nil)
	}

	reg("NumField", func(e *Engine, f *frame, a []Value) Value {
		r := e.reflMust(a[0], "NumField")
		st, ok := r.typ.Underlying().(*types.Struct)
		if !ok {
			e.x.goPanic(nil, nil, "reflect: call of NumField on "+reflTypeString(r.typ))
		}
		return e.b.BVi(int64(st.NumFields()), 64)
	})
	reg("Field", func(e *Engine, f *frame, a []Value) Value {
		r := e.reflMust(a[0], "Field")
		st, ok := r.typ.Underlying().(*types.Struct)
		if !ok {
			e.x.goPanic(nil, nil, "reflect: call of Field on "+reflTypeString(r.typ))
		}
		i := cint(e, a[1], "Field index")
		if i < 0 || i >= st.NumFields() {
			e.x.goPanic(nil, nil, "reflect: Field index out of range")
		}
		fld := st.Field(i)
		// as in package reflect: an unexported embedded field is read-only itself but its exported fields are
		// not; an unexported non-embedded field makes everything reached through it read-only
		ro, ero := r.ro, false
		if !fld.Exported() {
			if fld.Embedded() {
				ero = true
			} else {
				ro = true
			}
		}
		if r.slot != nil {
			return &ReflVal{typ: fld.Type(), slot: r.slot.kids[i], canSet: !ro && !ero, ro: ro, ero: ero}
		}
		return &ReflVal{typ: fld.Type(), val: e.reflGet(r).(*StructV).f[i], ro: ro, ero: ero}
	})
	reg("FieldByIndex", func(e *Engine, f *frame, a []Value) Value {
		v := a[0]
		idx := e.sliceElems(a[1])
		if len(idx) == 1 {
			return intrinsics[R+"Field"](e, f, []Value{v, idx[0]})
		}
		if r := e.reflMust(v, "FieldByIndex"); reflKind(r.typ) != 25 {
			e.x.goPanic(nil, nil, "reflect: call of FieldByIndex on "+reflTypeString(r.typ))
		}
		for i, x := range idx {
			if i > 0 {
				r := e.reflMust(v, "FieldByIndex")
				if pt, ok := r.typ.Underlying().(*types.Pointer); ok {
					if _, isStruct := pt.Elem().Underlying().(*types.Struct); isStruct {
						if p, ok := e.reflGet(r).(*Ptr); ok && p.s == nil {
							e.x.goPanic(nil, nil, "reflect: indirection through nil pointer to embedded struct")
						}
						v = intrinsics[R+"Elem"](e, f, []Value{v})
					}
				}
			}
			v = intrinsics[R+"Field"](e, f, []Value{v, x})
		}
		return v
	})
	reg("Len", func(e *Engine, f *frame, a []Value) Value {
		return e.b.BVi(int64(e.reflLen(e.reflMust(a[0], "Len"), "Len")), 64)
	})
	reg("Cap", func(e *Engine, f *frame, a []Value) Value {
		r := e.reflMust(a[0], "Cap")
		switch v := e.reflGet(r).(type) {
		case *SliceV:
			return e.b.BVi(int64(v.cap), 64)
		case *ArrayV:
			return e.b.BVi(int64(len(v.e)), 64)
		}
		e.x.goPanic(nil, nil, "reflect: call of Cap on "+reflTypeString(r.typ))
		return nil
	})
	reg("Index", func(e *Engine, f *frame, a []Value) Value {
		r := e.reflMust(a[0], "Index")
		return e.reflElem(r, cint(e, a[1], "Index"), "Index")
	})
	reg("SetLen", func(e *Engine, f *frame, a []Value) Value {
		r := e.reflMust(a[0], "SetLen")
		sv, ok := e.reflGet(r).(*SliceV)
		if !ok {
			e.x.goPanic(nil, nil, "reflect: call of SetLen on "+reflTypeString(r.typ))
		}
		n := cint(e, a[1], "SetLen")
		if n < 0 || n > sv.cap {
			e.x.goPanic(nil, nil, "reflect: slice length out of range in SetLen")
		}
		e.reflSet(r, &SliceV{arr: sv.arr, off: sv.off, len: n, cap: sv.cap}, "SetLen")
		return nil
	})
	reg("SetMapIndex", func(e *Engine, f *frame, a []Value) Value {
		r := e.reflMust(a[0], "SetMapIndex")
		mv, ok := e.reflGet(r).(*MapV)
		if !ok {
			e.x.goPanic(nil, nil, "reflect: call of SetMapIndex on "+reflTypeString(r.typ))
		}
		if mv.m == nil {
			e.x.goPanic(nil, nil, "assignment to entry in nil map")
		}
		mt := r.typ.Underlying().(*types.Map)
		k := e.reflMust(a[1], "SetMapIndex key")
		if !types.AssignableTo(k.typ, mt.Key()) {
			e.x.goPanic(nil, nil, fmt.Sprintf("reflect.Value.SetMapIndex: value of type %v is not assignable to type %v", reflTypeString(k.typ), reflTypeString(mt.Key())))
		}
		x := e.reflOf(a[2])
		if x == nil {
			e.mapDelete(mv.m, e.reflGet(k))
			return nil
		}
		xv := e.reflGet(x)
		if _, isIface := mt.Elem().Underlying().(*types.Interface); isIface {
			if _, already := xv.(*Iface); !already {
				xv = &Iface{t: x.typ, v: xv}
			}
		} else if !types.AssignableTo(x.typ, mt.Elem()) {
			e.x.goPanic(nil, nil, fmt.Sprintf("reflect.Value.SetMapIndex: value of type %v is not assignable to type %v", reflTypeString(x.typ), reflTypeString(mt.Elem())))
		}
		e.mapSet(mv.m, e.reflGet(k), xv)
		return nil
	})
	reg("MapIndex", func(e *Engine, f *frame, a []Value) Value {
		r := e.reflMust(a[0], "MapIndex")
		mv, ok := e.reflGet(r).(*MapV)
		if !ok {
			e.x.goPanic(nil, nil, "reflect: call of MapIndex on "+reflTypeString(r.typ))
		}
		k := e.reflGet(e.reflMust(a[1], "MapIndex key"))
		if mv.m != nil {
			for _, en := range mv.m.ents {
				if e.keyEq(en.k, k) {
					return &ReflVal{typ: r.typ.Underlying().(*types.Map).Elem(), val: en.v}
				}
			}
		}
		return e.zeroReflValue()
	})
	reg("MapKeys", func(e *Engine, f *frame, a []Value) Value {
		r := e.reflMust(a[0], "MapKeys")
		mv, ok := e.reflGet(r).(*MapV)
		if !ok {
			e.x.goPanic(nil, nil, "reflect: call of MapKeys on "+reflTypeString(r.typ))
		}
		n := 0
		if mv.m != nil {
			n = len(mv.m.ents)
		}
		arr := e.newArraySlot(e.reflPkgType("Value"), n)
		for i := 0; i < n; i++ {
			e.store(arr.kid(i), &ReflVal{typ: r.typ.Underlying().(*types.Map).Key(), val: mv.m.ents[i].k})
		}
		return &SliceV{arr: arr, len: n, cap: n}
	})
	reg("Addr", func(e *Engine, f *frame, a []Value) Value {
		r := e.reflMust(a[0], "Addr")
		if r.slot == nil {
			e.x.goPanic(nil, nil, "reflect.Value.Addr of unaddressable value")
		}
		return &ReflVal{typ: types.NewPointer(r.typ), val: &Ptr{r.slot}, ro: r.ro, ero: r.ero}
	})
	reg("CanInterface", func(e *Engine, f *frame, a []Value) Value {
		r := e.reflMust(a[0], "CanInterface")
		return e.b.Bool(!r.ro && !r.ero)
	})
	reg("Bool", func(e *Engine, f *frame, a []Value) Value {
		r := e.reflMust(a[0], "Bool")
		if reflKind(r.typ) != 1 {
			e.x.goPanic(nil, nil, "reflect: call of Bool on "+reflTypeString(r.typ))
		}
		return e.reflGet(r)
	})
	reg("Int", func(e *Engine, f *frame, a []Value) Value {
		r := e.reflMust(a[0], "Int")
		if k := reflKind(r.typ); k < 2 || k > 6 {
			e.x.goPanic(nil, nil, "reflect: call of Int on "+reflTypeString(r.typ))
		}
		return e.b.SExt(e.term(e.reflGet(r)), 64)
	})
	reg("Uint", func(e *Engine, f *frame, a []Value) Value {
		r := e.reflMust(a[0], "Uint")
		if k := reflKind(r.typ); k < 7 || k > 12 {
			e.x.goPanic(nil, nil, "reflect: call of Uint on "+reflTypeString(r.typ))
		}
		return e.b.ZExt(e.term(e.reflGet(r)), 64)
	})
	reg("Float", func(e *Engine, f *frame, a []Value) Value {
		r := e.reflMust(a[0], "Float")
		switch reflKind(r.typ) {
		case 13:
			return e.b.FpCvt(e.term(e.reflGet(r)), 64)
		case 14:
			return e.reflGet(r)
		}
		e.x.goPanic(nil, nil, "reflect: call of Float on "+reflTypeString(r.typ))
		return nil
	})
	reg("String", func(e *Engine, f *frame, a []Value) Value {
		r := e.reflOf(a[0])
		if r == nil {
			return e.strConst("<invalid Value>")
		}
		if reflKind(r.typ) == 24 {
			return e.reflGet(r)
		}
		return e.strConst("<" + reflTypeString(r.typ) + " Value>")
	})
	reg("Bytes", func(e *Engine, f *frame, a []Value) Value {
		r := e.reflMust(a[0], "Bytes")
		switch u := r.typ.Underlying().(type) {
		case *types.Slice:
			if reflKind(u.Elem()) == 8 {
				return e.reflGet(r)
			}
		case *types.Array:
			if reflKind(u.Elem()) == 8 && r.slot != nil {
				return &SliceV{arr: r.slot, len: int(u.Len()), cap: int(u.Len())}
			}
		}
		e.x.goPanic(nil, nil, "reflect: call of Bytes on "+reflTypeString(r.typ))
		return nil
	})
	reg("IsZero", func(e *Engine, f *frame, a []Value) Value {
		panic(unsupported("reflect.Value.IsZero (outside the reflect-lite model)"))
	})

	intrinsics["reflect.MakeSlice"] = func(e *Engine, f *frame, a []Value) Value {
		t := a[0].(*Iface).v.(*ReflType).typ
		st, ok := t.Underlying().(*types.Slice)
		if !ok {
			e.x.goPanic(nil, nil, "reflect.MakeSlice of non-slice type")
		}
		ln, cp := cint(e, a[1], "MakeSlice len"), cint(e, a[2], "MakeSlice cap")
		if ln < 0 || cp < ln {
			e.x.goPanic(nil, nil, "reflect.MakeSlice: len > cap or negative")
		}
		if cp > e.allocLimit {
			panic(unsupported("reflect.MakeSlice beyond the allocation limit"))
		}
		return &ReflVal{typ: t, val: &SliceV{arr: e.newArraySlot(st.Elem(), cp), len: ln, cap: cp}}
	}
	intrinsics["reflect.MakeMap"] = func(e *Engine, f *frame, a []Value) Value {
		t := a[0].(*Iface).v.(*ReflType).typ
		if _, ok := t.Underlying().(*types.Map); !ok {
			e.x.goPanic(nil, nil, "reflect.MakeMap of non-map type")
		}
		return &ReflVal{typ: t, val: &MapV{m: &MapObj{}}}
	}
	intrinsics["reflect.Copy"] = func(e *Engine, f *frame, a []Value) Value {
		dst, src := e.reflMust(a[0], "Copy"), e.reflMust(a[1], "Copy")
		if _, isArr := dst.typ.Underlying().(*types.Array); isArr && (dst.slot == nil || !dst.canSet) {
			e.x.goPanic(nil, nil, "reflect.Copy: unaddressable array value")
		}
		n := e.reflLen(dst, "Copy")
		if m := e.reflLen(src, "Copy"); m < n {
			n = m
		}
		vals := make([]Value, n)
		for i := 0; i < n; i++ {
			vals[i] = e.reflGet(e.reflElem(src, i, "Copy"))
		}
		for i := 0; i < n; i++ {
			e.store(e.reflElem(dst, i, "Copy").slot, vals[i])
		}
		return e.b.BVi(int64(n), 64)
	}
	ptrTo := func(e *Engine, f *frame, a []Value) Value {
		return e.reflTypeIface(types.NewPointer(a[0].(*Iface).v.(*ReflType).typ))
	}
	intrinsics["reflect.PtrTo"] = ptrTo
	intrinsics["reflect.PointerTo"] = ptrTo
	intrinsics["reflect.Indirect"] = func(e *Engine, f *frame, a []Value) Value {
		r := e.reflOf(a[0])
		if r == nil || reflKind(r.typ) != 22 {
			return a[0]
		}
		return intrinsics[R+"Elem"](e, f, a)
	}
	intrinsics["(reflect.StructTag).Get"] = func(e *Engine, f *frame, a []Value) Value {
		return e.strConst(reflect.StructTag(e.concStr(a[0].(*StrV))).Get(e.concStr(a[1].(*StrV))))
	}
	intrinsics["(reflect.StructTag).Lookup"] = func(e *Engine, f *frame, a []Value) Value {
		v, ok := reflect.StructTag(e.concStr(a[0].(*StrV))).Lookup(e.concStr(a[1].(*StrV)))
		return Tuple{e.strConst(v), e.b.Bool(ok)}
	}
}

// reflTypeMethod2: methods of reflect.Type needed for composite types.
func (e *Engine) reflTypeMethod2(rt *ReflType, name string, args []Value) (Value, bool) {
	switch name {
	case "NumField":
		st, ok := rt.typ.Underlying().(*types.Struct)
		if !ok {
			e.x.goPanic(nil, nil, "reflect: NumField of non-struct type "+reflTypeString(rt.typ))
		}
		return e.b.BVi(int64(st.NumFields()), 64), true
	case "Field":
		st, ok := rt.typ.Underlying().(*types.Struct)
		if !ok {
			e.x.goPanic(nil, nil, "reflect: Field of non-struct type "+reflTypeString(rt.typ))
		}
		i := e.concInt(e.term(args[0]), true, "Field index", -1, 1<<20, nil)
		if i < 0 || i >= st.NumFields() {
			e.x.goPanic(nil, nil, "reflect: Field index out of bounds")
		}
		return e.reflStructField(st, i), true
	case "Key":
		mt, ok := rt.typ.Underlying().(*types.Map)
		if !ok {
			e.x.goPanic(nil, nil, "reflect: Key of non-map type "+reflTypeString(rt.typ))
		}
		return e.reflTypeIface(mt.Key()), true
	case "Len":
		at, ok := rt.typ.Underlying().(*types.Array)
		if !ok {
			e.x.goPanic(nil, nil, "reflect: Len of non-array type "+reflTypeString(rt.typ))
		}
		return e.b.BVi(at.Len(), 64), true
	case "Name":
		return e.strConst(reflTypeName(rt.typ)), true
	case "String":
		return e.strConst(reflTypeString(rt.typ)), true
	case "PkgPath":
		if n, ok := rt.typ.(*types.Named); ok && n.Obj().Pkg() != nil {
			return e.strConst(n.Obj().Pkg().Path()), true
		}
		return e.strConst(""), true
	case "Implements":
		u := args[0].(*Iface).v.(*ReflType).typ
		it, ok := u.Underlying().(*types.Interface)
		if !ok {
			e.x.goPanic(nil, nil, "reflect: non-interface type passed to Type.Implements")
		}
		return e.b.Bool(types.Implements(rt.typ, it)), true
	case "AssignableTo":
		return e.b.Bool(types.AssignableTo(rt.typ, args[0].(*Iface).v.(*ReflType).typ)), true
	case "ConvertibleTo":
		return e.b.Bool(types.ConvertibleTo(rt.typ, args[0].(*Iface).v.(*ReflType).typ)), true
	case "Comparable":
		return e.b.Bool(types.Comparable(rt.typ)), true
	}
	return nil, false
}
