package main

// C20, event stream: what the event writer hands to the encoder. In the engine ion.Encoder.Encode (reflection) is
// environment: it passes the value to vOnEncode below and returns nil. In the native replay the real encoder runs and
// the events are recovered by reading its text output back; both give the same list of (event type, Ion type, depth,
// field name present, number of annotations).
//
// Claims (ion-test-driver event streams): a scalar / CONTAINER_START event carries the depth of the value; a
// CONTAINER_END event carries the depth and Ion type of its CONTAINER_START; a pending field name / annotations are
// attached to exactly the next event; STREAM_END comes last, at depth 0 when all containers are closed.

import (
	"strings"

	"github.com/amzn/ion-go/ion"
)

type cEv struct {
	typ    string
	ion    string
	depth  int
	field  bool
	annots int
}

var cCaptured []cEv

func vOnEncode(v interface{}) {
	if ev, ok := v.(event); ok {
		cCaptured = append(cCaptured, cEv{ev.EventType.String(), strings.ToUpper(ion.Type(ev.IonType).String()), ev.Depth, ev.FieldName != nil, len(ev.Annotations)})
	}
}

// cParseEvents recovers the events from the encoder's text output (native replay only: in the engine the encoder is a stub).
func cParseEvents(out []byte) []cEv {
	var evs []cEv
	r := ion.NewReaderBytes(out)
	for r.Next() {
		if r.Type() != ion.StructType {
			continue
		}
		var ev cEv
		r.StepIn()
		for r.Next() {
			fn, _ := r.FieldName()
			if fn == nil || fn.Text == nil {
				continue
			}
			switch *fn.Text {
			case "event_type":
				if s, _ := r.SymbolValue(); s != nil && s.Text != nil {
					ev.typ = *s.Text
				}
			case "ion_type":
				if s, _ := r.SymbolValue(); s != nil && s.Text != nil {
					ev.ion = *s.Text
				}
			case "depth":
				if d, _ := r.IntValue(); d != nil {
					ev.depth = *d
				}
			case "field_name":
				ev.field = true
			case "annotations":
				r.StepIn()
				for r.Next() {
					ev.annots++
				}
				r.StepOut()
			}
		}
		r.StepOut()
		evs = append(evs, ev)
	}
	return evs
}

func cEvents(sink *cSink) []cEv {
	if len(cCaptured) > 0 {
		return cCaptured
	}
	return cParseEvents(sink.buf)
}

var cEvTypes = []string{"LIST", "SEXP", "STRUCT"}

// H_C20_evstream: L symbolic calls on the event writer, then Finish; the emitted events equal the model's.
func H_C20_evstream() {
	cCaptured = nil
	sink := &cSink{}
	w := NewEventWriter(sink).(*eventwriter)
	var want []cEv
	var stack []int
	field, annots := false, 0
	a := "a"
	emit := func(typ, it string) {
		want = append(want, cEv{typ, it, len(stack), field, annots})
		field, annots = false, 0
	}
	for i := 0; i < vparam("L", 3); i++ {
		switch vnondetInt(0, 8) {
		case 0:
			w.WriteInt(1)
			emit("SCALAR", "INT")
		case 1:
			w.WriteNullType(ion.BoolType)
			emit("SCALAR", "BOOL")
		case 2:
			w.BeginList()
			emit("CONTAINER_START", "LIST")
			stack = append(stack, 0)
		case 3:
			w.BeginSexp()
			emit("CONTAINER_START", "SEXP")
			stack = append(stack, 1)
		case 4:
			w.BeginStruct()
			emit("CONTAINER_START", "STRUCT")
			stack = append(stack, 2)
		case 5:
			if len(stack) == 0 {
				vassume(false)
			}
			k := stack[len(stack)-1]
			stack = stack[:len(stack)-1]
			switch k {
			case 0:
				w.EndList()
			case 1:
				w.EndSexp()
			default:
				w.EndStruct()
			}
			emit("CONTAINER_END", cEvTypes[k])
		case 6:
			w.FieldName(ion.SymbolToken{Text: &a, LocalSID: ion.SymbolIDUnknown})
			field = true
		case 7:
			w.Annotation(ion.SymbolToken{Text: &a, LocalSID: ion.SymbolIDUnknown})
			annots++
		default:
			w.WriteSymbol(ion.SymbolToken{Text: &a, LocalSID: ion.SymbolIDUnknown})
			emit("SCALAR", "SYMBOL")
		}
	}
	closed := len(stack) == 0
	vassert(w.Finish() == nil, "Finish of the event writer succeeds")
	got := cEvents(sink)
	vassert(len(got) == len(want)+1, "one event per value / container boundary, then STREAM_END")
	for i := range want {
		vassert(got[i].typ == want[i].typ, "event types follow the calls")
		vassert(got[i].ion == want[i].ion, "the Ion type of an event is the type of the value / of the container it opens or closes")
		vassert(got[i].depth == want[i].depth, "a value's event carries its depth; CONTAINER_END carries the depth of its CONTAINER_START")
		vassert(got[i].field == want[i].field, "a pending field name is attached to exactly the next event")
		vassert(got[i].annots == want[i].annots, "pending annotations are attached to exactly the next event")
	}
	last := got[len(got)-1]
	vassert(last.typ == "STREAM_END", "STREAM_END comes last")
	if closed {
		vassert(last.depth == 0, "STREAM_END is at depth 0")
	}
	vobserve("n", uint64(len(got)))
	vcover("end")
}

// cEvModel: the events a document denotes, from a plain full traversal with the Reader.
func cEvModel(r ion.Reader, depth int, out *[]cEv) bool {
	for r.Next() {
		fn, err := r.FieldName()
		if err != nil {
			return false
		}
		as, err := r.Annotations()
		if err != nil {
			return false
		}
		t := r.Type()
		name := strings.ToUpper(t.String())
		if !r.IsNull() && (t == ion.ListType || t == ion.SexpType || t == ion.StructType) {
			*out = append(*out, cEv{"CONTAINER_START", name, depth, fn != nil, len(as)})
			if r.StepIn() != nil {
				return false
			}
			if !cEvModel(r, depth+1, out) {
				return false
			}
			if r.StepOut() != nil {
				return false
			}
			*out = append(*out, cEv{"CONTAINER_END", name, depth, false, 0})
			continue
		}
		if !r.IsNull() {
			// the scalar accessors must succeed for the document to count as valid
			var e error
			switch t {
			case ion.BoolType:
				_, e = r.BoolValue()
			case ion.IntType:
				_, e = r.BigIntValue()
			case ion.FloatType:
				_, e = r.FloatValue()
			case ion.DecimalType:
				_, e = r.DecimalValue()
			case ion.TimestampType:
				_, e = r.TimestampValue()
			case ion.SymbolType:
				_, e = r.SymbolValue()
			case ion.StringType:
				_, e = r.StringValue()
			case ion.ClobType, ion.BlobType:
				_, e = r.ByteValue()
			}
			if e != nil {
				return false
			}
		}
		*out = append(*out, cEv{"SCALAR", name, depth, fn != nil, len(as)})
	}
	return r.Err() == nil
}

// H_C20_process_ev: processor.process into the event writer (format "events") and into the no-op writer (format
// "none"): one well-formed event per value and container boundary, then STREAM_END on Finish.
func H_C20_process_ev() {
	cCaptured = nil
	doc := cDoc()
	if vparam("kind", 0) == 1 {
		vassume(len(doc) == 0 || doc[0] != 0xE0)
	}
	var want []cEv
	valid := cEvModel(ion.NewReaderBytes(doc), 0, &want)
	sink := &cSink{}
	var w ion.Writer
	if vparam("fmt", 3) == 3 {
		w = NewEventWriter(sink)
	} else {
		w = NewNopWriter()
	}
	p := &processor{out: w, err: NewErrorReport(&cSink{})}
	err := p.process(ion.NewReaderBytes(doc))
	if valid {
		vassert(err == nil, "valid input is processed without error")
		vassert(w.Finish() == nil, "Finish succeeds")
		if vparam("fmt", 3) == 3 {
			got := cEvents(sink)
			vassert(len(got) == len(want)+1, "one event per value and container boundary, then STREAM_END")
			for i := range want {
				vassert(got[i] == want[i], "each event carries the type, depth, field name and annotations of its value")
			}
			vassert(got[len(got)-1].typ == "STREAM_END" && got[len(got)-1].depth == 0, "STREAM_END comes last at depth 0")
		}
		vcover("valid")
	} else {
		vassert(err != nil, "invalid input is reported as an error")
		vcover("invalid")
	}
	vobserve("n", uint64(len(want)))
	vcover("end")
}
