package ion

// C05: copying a Reader into a Writer preserves data across formats and symbol tables.
//
// Source documents (binary, or the equivalent text; param src) declare a local symbol table ["p","q","$7"] and then
// hold   $b :: 1   $a :: { $f : $v }   and a top-level symbol $w, where b, a, f, v, w are symbol IDs chosen by solver variables
// (system symbols, local symbols, the local symbol whose text looks like an ID, and $0). The documented copy loop
// (field name, annotations, value, recursing into containers) copies the source Reader into a text, pretty or binary
// Writer (param dst). The copy is decoded (binary: independent decoder refBinDecode; text: re-read) and every symbol
// must carry the text it had in the source - the result must not depend on the IDs the source happened to use.

func vCopyAll(r Reader, w Writer) bool {
	for r.Next() {
		name, err := r.FieldName()
		if err != nil {
			return false
		}
		if name != nil {
			if w.FieldName(*name) != nil {
				return false
			}
		}
		an, err := r.Annotations()
		if err != nil {
			return false
		}
		if len(an) > 0 {
			if w.Annotations(an...) != nil {
				return false
			}
		}
		t := r.Type()
		if r.IsNull() {
			if w.WriteNullType(t) != nil {
				return false
			}
			continue
		}
		switch t {
		case BoolType:
			v, err := r.BoolValue()
			if err != nil || w.WriteBool(*v) != nil {
				return false
			}
		case IntType:
			v, err := r.Int64Value()
			if err != nil || w.WriteInt(*v) != nil {
				return false
			}
		case StringType:
			v, err := r.StringValue()
			if err != nil || w.WriteString(*v) != nil {
				return false
			}
		case SymbolType:
			v, err := r.SymbolValue()
			if err != nil || w.WriteSymbol(*v) != nil {
				return false
			}
		case ListType, SexpType, StructType:
			if r.StepIn() != nil {
				return false
			}
			var e error
			switch t {
			case ListType:
				e = w.BeginList()
			case SexpType:
				e = w.BeginSexp()
			default:
				e = w.BeginStruct()
			}
			if e != nil || !vCopyAll(r, w) || r.StepOut() != nil {
				return false
			}
			switch t {
			case ListType:
				e = w.EndList()
			case SexpType:
				e = w.EndSexp()
			default:
				e = w.EndStruct()
			}
			if e != nil {
				return false
			}
		default:
			return false
		}
	}
	return r.Err() == nil
}

// source symbol table: 1..9 system, 10 "p", 11 "q", 12 "$7"
var vC05Texts = []string{"", "$ion", "$ion_1_0", "$ion_symbol_table", "name", "version", "imports", "symbols", "max_id", "$ion_shared_symbol_table", "p", "q", "$7"}

func vC05Sid() uint8 {
	// representative IDs: $0 (no text), a system symbol, the three local symbols
	return []uint8{0, 4, 10, 11, 12}[vnondetInt(0, 4)]
}

func H_C05_copy() {
	src := vparam("src", 0)
	dst := vparam("dst", 2)
	a, f, v, w := vC05Sid(), vC05Sid(), vC05Sid(), vC05Sid()
	b := []uint8{10, 11}[vnondetInt(0, 1)] // an annotated scalar first, so that symbols reach the copy in an order other than the table's
	var r Reader
	if src == 0 {
		lst := vTLV(0xE0, vCat([]byte{0x81, 0x83}, vTLV(0xD0, vCat([]byte{0x87}, vTLV(0xB0, vCat(vStr("p"), vStr("q"), vStr("$7"))...))...))...)
		st := vTLV(0xD0, 0x80|f, 0x71, v)
		val := vTLV(0xE0, vCat([]byte{0x81, 0x80 | a}, st)...)
		first := vTLV(0xE0, 0x81, 0x80|b, 0x21, 0x01)
		r = NewReaderBytes(vCat(vBVM, lst, first, val, []byte{0x71, w}))
	} else {
		doc := "$ion_symbol_table::{symbols:[\"p\",\"q\",\"$7\"]} $" + vSidText(b) + "::1 $" + vSidText(a) + "::{$" + vSidText(f) + ":$" + vSidText(v) + "} $" + vSidText(w)
		r = NewReaderString(doc)
	}
	out := &vSink{failAt: -1}
	wr := vNewWriter(dst, out)
	vassert(vCopyAll(r, wr), "the copy loop succeeds on an accepted document")
	vassert(wr.Finish() == nil, "Finish succeeds")

	// what the copy denotes
	var got [5]vSym
	if dst >= 2 {
		d, ok := refBinDecode(out.buf, nil)
		vassert(ok && !d.unsure, "binary copy is well-formed under the independent decoder")
		vassert(!d.undef, "binary copy defines every symbol ID it uses")
		us := d.user()
		vassert(len(us) == 4, "the copy holds the same values")
		conv := func(s rSym) vSym { return vSym{present: true, hasText: s.known, text: s.text, sid: int64(s.sid)} }
		vassert(len(us[0].ann) == 1 && len(us[1].ann) == 1 && us[2].hasField, "annotations and field name survive")
		got = [5]vSym{conv(us[1].ann[0]), conv(us[2].field), conv(us[2].sym), conv(us[3].sym), conv(us[0].ann[0])}
	} else {
		r2 := NewReaderBytes(out.buf)
		var evs []vEv
		stepErr := vTraverse(r2, 0, 4, false, &evs)
		vassert(!stepErr && r2.Err() == nil, "text copy is read back without error")
		vassert(len(evs) == 4, "the copy holds the same values")
		vassert(len(evs[0].ann) == 1 && len(evs[1].ann) == 1 && evs[2].field.present, "annotations and field name survive")
		got = [5]vSym{evs[1].ann[0], evs[2].field, evs[2].sym, evs[3].sym, evs[0].ann[0]}
	}
	want := [5]uint8{a, f, v, w, b}
	for i := range want {
		if want[i] == 0 {
			vassert(!got[i].hasText, "a symbol without text stays without text")
		} else {
			vassert(got[i].hasText && got[i].text == vC05Texts[want[i]], "every symbol is carried by its text, independent of the source's IDs")
		}
	}
	vobserve("len", uint64(len(out.buf)))
	vcover("end")
}

// H_C05_copy2: a source stream that switches symbol tables: LST1 ["p","q"]  $x  {$y:1}   LST2 ["q","p"]  $x2  {$y2:2}
// (x, y, x2, y2 in {10, 11}; binary, or the equivalent text). The same ID means another text after the second table;
// the copy must carry each symbol by the text it had at that point of the source.
func H_C05_copy2() {
	src := vparam("src", 0)
	dst := vparam("dst", 2)
	pick := func() uint8 { return []uint8{10, 11}[vnondetInt(0, 1)] }
	x, y, x2, y2 := pick(), pick(), pick(), pick()
	var r Reader
	if src == 0 {
		lst := func(a, b string) []byte {
			return vTLV(0xE0, vCat([]byte{0x81, 0x83}, vTLV(0xD0, vCat([]byte{0x87}, vTLV(0xB0, vCat(vStr(a), vStr(b))...))...))...)
		}
		r = NewReaderBytes(vCat(vBVM, lst("p", "q"), []byte{0x71, x}, vTLV(0xD0, 0x80|y, 0x21, 1), lst("q", "p"), []byte{0x71, x2}, vTLV(0xD0, 0x80|y2, 0x21, 2)))
	} else {
		doc := "$ion_symbol_table::{symbols:[\"p\",\"q\"]} $" + vSidText(x) + " {$" + vSidText(y) + ":1} $ion_symbol_table::{symbols:[\"q\",\"p\"]} $" + vSidText(x2) + " {$" + vSidText(y2) + ":2}"
		r = NewReaderString(doc)
	}
	out := &vSink{failAt: -1}
	wr := vNewWriter(dst, out)
	vassert(vCopyAll(r, wr), "the copy loop succeeds on an accepted document")
	vassert(wr.Finish() == nil, "Finish succeeds")
	t1 := []string{"p", "q"}
	t2 := []string{"q", "p"}
	want := [4]string{t1[x-10], t1[y-10], t2[x2-10], t2[y2-10]}
	var got [4]vSym
	if dst >= 2 {
		d, ok := refBinDecode(out.buf, nil)
		vassert(ok && !d.unsure && !d.undef, "binary copy is well-formed and self-contained under the independent decoder")
		us := d.user()
		vassert(len(us) == 6 && us[2].hasField && us[5].hasField, "the copy holds the same values")
		conv := func(s rSym) vSym { return vSym{present: true, hasText: s.known, text: s.text, sid: int64(s.sid)} }
		got = [4]vSym{conv(us[0].sym), conv(us[2].field), conv(us[3].sym), conv(us[5].field)}
	} else {
		r2 := NewReaderBytes(out.buf)
		var evs []vEv
		stepErr := vTraverse(r2, 0, 4, false, &evs)
		vassert(!stepErr && r2.Err() == nil, "text copy is read back without error")
		vassert(len(evs) == 6 && evs[2].field.present && evs[5].field.present, "the copy holds the same values")
		got = [4]vSym{evs[0].sym, evs[2].field, evs[3].sym, evs[5].field}
	}
	for i := range want {
		vassert(got[i].hasText && got[i].text == want[i], "every symbol is carried by the text it had at that point of the source")
	}
	vcover("end")
}

// H_C05_copy3: a binary source whose local symbol has an arbitrary ASCII byte in its text ("x" c "y", c symbolic: control
// characters, quotes, backslash, operator characters, letters): the symbol is used as annotation, field name and value.
// Every destination must carry the exact text (text destinations: re-read by the Reader; binary: independent decoder).
func H_C05_copy3() {
	dst := vparam("dst", 0)
	c := vnondetU8()
	vassume(c < 0x80)
	lst := vTLV(0xE0, vCat([]byte{0x81, 0x83}, vTLV(0xD0, vCat([]byte{0x87}, vTLV(0xB0, vTLV(0x80, 'x', c, 'y')...))...))...)
	st := vTLV(0xD0, 0x8A, 0x71, 0x0A)
	val := vTLV(0xE0, vCat([]byte{0x81, 0x8A}, st)...)
	r := NewReaderBytes(vCat(vBVM, lst, val))
	out := &vSink{failAt: -1}
	wr := vNewWriter(dst, out)
	vassert(vCopyAll(r, wr), "the copy loop succeeds on an accepted document")
	vassert(wr.Finish() == nil, "Finish succeeds")
	want := string([]byte{'x', c, 'y'})
	var got [3]vSym
	if dst >= 2 {
		d, ok := refBinDecode(out.buf, nil)
		vassert(ok && !d.unsure, "binary copy is well-formed under the independent decoder")
		vassert(!d.undef, "binary copy defines every symbol ID it uses")
		us := d.user()
		vassert(len(us) == 2 && len(us[0].ann) == 1 && us[1].hasField, "the copy holds the same values, annotation and field name")
		conv := func(s rSym) vSym { return vSym{present: true, hasText: s.known, text: s.text, sid: int64(s.sid)} }
		got = [3]vSym{conv(us[0].ann[0]), conv(us[1].field), conv(us[1].sym)}
	} else {
		r2 := NewReaderBytes(out.buf)
		var evs []vEv
		stepErr := vTraverse(r2, 0, 4, false, &evs)
		vassert(!stepErr && r2.Err() == nil, "text copy is read back without error")
		vassert(len(evs) == 2 && len(evs[0].ann) == 1 && evs[1].field.present, "the copy holds the same values, annotation and field name")
		got = [3]vSym{evs[0].ann[0], evs[1].field, evs[1].sym}
	}
	for i := range got {
		vassert(got[i].hasText && got[i].text == want, "every symbol is carried by its exact text, whatever characters it holds")
	}
	vcover("end")
}
