#!/bin/sh
# usage: mutant_check.sh <patch.diff> <ID> [<ID>...]   — runs the quick checks of the given properties against a
# scratch worktree of /repo HEAD with the patch applied (VERIF_REPO), without touching /repo or evidence files.
p="$1"; shift
wt=$(mktemp -d /tmp/mc_XXXXXX); rmdir "$wt"
git -C /repo worktree add --detach "$wt" HEAD >/dev/null 2>&1 || { echo "worktree failed"; exit 2; }
trap 'git -C /repo worktree remove --force "$wt" >/dev/null 2>&1' EXIT
git -C "$wt" apply "$p" || { echo "PATCH-DOES-NOT-APPLY"; exit 2; }
for id in "$@"; do
  out=$(cd /verif && VERIF_REPO="$wt" VERIF_REPLAYS="$wt/.replays" ./check "$id" --noevidence ${MUT_ARGS} 2>&1); rc=$?
  echo "--- $id exit=$rc"; echo "$out" | grep -E "^VIOLATION|^   harness|^ERROR|^INCONCLUSIVE|^ENGINE|^TRANSLATOR|^SUMMARY" | head -12
done
