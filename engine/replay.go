package main

// Native replay: every solver assignment is turned into a tape and run against the real build of the current tree
// (go test -c with the harness overlaid), both to confirm counterexamples before they are reported and to validate
// the translator on sampled feasible paths.

import (
	"bytes"
	"encoding/json"
	"fmt"
	"os"
	"os/exec"
	"path/filepath"
	"strings"
	"time"
)

type replayIn struct {
	Harness string           `json:"harness"`
	Tape    []TapeEntry      `json:"tape"`
	Params  map[string]int64 `json:"params"`
	Timeout int              `json:"timeout_s"`
	// informational
	Property string   `json:"property,omitempty"`
	Kind     string   `json:"kind,omitempty"`
	Where    string   `json:"where,omitempty"`
	Msg      string   `json:"msg,omitempty"`
	Func     string   `json:"func,omitempty"`
	Pkg      string   `json:"pkg,omitempty"`
	Expect   []string `json:"expected_obs,omitempty"`
}

type replayOut struct {
	Outcome string   `json:"outcome"`
	Label   string   `json:"label"`
	Msg     string   `json:"msg"`
	Func    string   `json:"func"`
	Frames  []string `json:"frames"`
	Obs     []string `json:"obs"`
	AllocMB float64  `json:"alloc_mb"`
	TapeUse int      `json:"tape_used"`
	Raw     string   `json:"-"`
}

type nativeBin struct {
	dir  string
	path string
	err  error
	log  string
}

// buildNative compiles the package's test binary with the harness files overlaid.
func buildNative(l *loaded) *nativeBin {
	ov := struct {
		Replace map[string]string
	}{l.overlay}
	js, _ := json.Marshal(ov)
	ovf := filepath.Join(l.tmpDir, "overlay.json")
	os.WriteFile(ovf, js, 0o644)
	out := filepath.Join(l.tmpDir, "replay.test")
	os.Remove(out)
	cmd := exec.Command("go", "test", "-c", "-vet=off", "-overlay", ovf, "-o", out, "./"+l.pkgRel)
	cmd.Dir = repoDir
	cmd.Env = envs()
	var buf bytes.Buffer
	cmd.Stdout, cmd.Stderr = &buf, &buf
	err := cmd.Run()
	return &nativeBin{dir: filepath.Join(repoDir, l.pkgRel), path: out, err: err, log: buf.String()}
}

func runNative(nb *nativeBin, in *replayIn, dir string) (*replayOut, error) {
	if nb.err != nil {
		return nil, fmt.Errorf("native build failed: %v\n%s", nb.err, nb.log)
	}
	os.MkdirAll(dir, 0o755)
	tf := filepath.Join(dir, "tape.json")
	js, _ := json.MarshalIndent(in, "", " ")
	if err := os.WriteFile(tf, js, 0o644); err != nil {
		return nil, err
	}
	to := in.Timeout
	if to <= 0 {
		to = 20
	}
	// address-space limit so that a runaway allocation dies instead of taking the sandbox down
	sh := fmt.Sprintf("ulimit -v 8000000; exec %s -test.run '^TestVerifReplay$' -test.timeout %ds", nb.path, to+30)
	cmd := exec.Command("sh", "-c", sh)
	cmd.Dir = nb.dir
	cmd.Env = append(envs(), "VERIF_TAPE="+tf)
	var buf bytes.Buffer
	cmd.Stdout, cmd.Stderr = &buf, &buf
	done := make(chan error, 1)
	cmd.Start()
	go func() { done <- cmd.Wait() }()
	select {
	case <-done:
	case <-time.After(time.Duration(to+40) * time.Second):
		cmd.Process.Kill()
		<-done
	}
	raw := buf.String()
	out := &replayOut{Raw: raw}
	for _, ln := range strings.Split(raw, "\n") {
		if strings.HasPrefix(ln, "VERIF-REPLAY: ") {
			if err := json.Unmarshal([]byte(strings.TrimPrefix(ln, "VERIF-REPLAY: ")), out); err != nil {
				return nil, err
			}
			out.Func = canonFunc(out.Func)
			return out, nil
		}
	}
	// no result line: the process died (fatal error, out of memory, stack overflow) or hung
	switch {
	case strings.Contains(raw, "fatal error") || strings.Contains(raw, "out of memory") || strings.Contains(raw, "stack overflow") || strings.Contains(raw, "goroutine stack exceeds"):
		out.Outcome = "fatal"
		for _, ln := range strings.Split(raw, "\n") {
			if strings.Contains(ln, "fatal error") || strings.Contains(ln, "runtime:") {
				out.Msg = strings.TrimSpace(ln)
				break
			}
		}
	case strings.Contains(raw, "test timed out") || strings.Contains(raw, "panic: test timed out"):
		out.Outcome = "timeout"
	default:
		out.Outcome = "died"
		if len(raw) > 400 {
			out.Msg = raw[len(raw)-400:]
		} else {
			out.Msg = raw
		}
	}
	return out, nil
}

// reproduces decides whether the native outcome confirms the violation the engine derived.
func reproduces(v *Violation, out *replayOut, allocLimitMB float64) bool {
	switch v.Kind {
	case "assert":
		return out.Outcome == "assert" && out.Label == v.Where
	case "panic":
		return out.Outcome == "panic" || out.Outcome == "fatal"
	case "unwind":
		return out.Outcome == "timeout" || out.Outcome == "fatal"
	case "alloc":
		return out.Outcome == "fatal" || out.Outcome == "timeout" || (out.Outcome == "panic" && (strings.Contains(out.Msg, "makeslice") || strings.Contains(out.Msg, "out of memory") || strings.Contains(out.Msg, "out of range"))) || out.AllocMB > allocLimitMB
	}
	return false
}

func replayDir(dir string) int {
	raw, err := os.ReadFile(filepath.Join(dir, "tape.json"))
	if err != nil {
		fmt.Println("ERROR", err)
		return 2
	}
	var in replayIn
	if err := json.Unmarshal(raw, &in); err != nil {
		fmt.Println("ERROR", err)
		return 2
	}
	kind := in.Pkg
	if kind == "" {
		kind = "ion"
	}
	l, err := load(kind)
	if err != nil {
		fmt.Println("ERROR harness-build:", err)
		return 2
	}
	nb := buildNative(l)
	tmp, _ := os.MkdirTemp(l.tmpDir, "replay")
	defer os.RemoveAll(tmp)
	out, err := runNative(nb, &in, tmp)
	if err != nil {
		fmt.Println("ERROR", err)
		return 2
	}
	fmt.Printf("harness %s on the current tree: outcome=%s label=%q msg=%q func=%s alloc=%.1fMB\n", in.Harness, out.Outcome, out.Label, out.Msg, out.Func, out.AllocMB)
	fmt.Printf("recorded violation: [%s] %s %s\n", in.Kind, in.Where, in.Msg)
	v := &Violation{Kind: in.Kind, Where: in.Where, Msg: in.Msg, Func: in.Func}
	if reproduces(v, out, 64) {
		fmt.Printf("VIOLATION property=%s replay=%s\n", in.Property, dir)
		return 1
	}
	fmt.Println("not reproduced on the current tree")
	return 0
}
