package main

// Interpreter for go/ssa with symbolic scalars. Go run-time failures are assertions (checked with the solver
// before the operation); every loop header carries an unwinding bound.

import (
	"fmt"
	"go/constant"
	"go/token"
	"go/types"
	"math"
	"math/big"
	"strings"

	"golang.org/x/tools/go/ssa"
)

type unsupported string
type pathEnd struct{ why string } // normal end of path exploration (assume false, violation stop, ...)

type intrinsicFn func(e *Engine, f *frame, args []Value) Value

type fnInfo struct {
	name  string
	intr  intrinsicFn
	user  bool // function of the code under test (not harness, not stdlib)
	short string
}

type Engine struct {
	prog       *ssa.Program
	pkg        *ssa.Package
	b          *TermBank
	x          *Explorer
	globals    map[*ssa.Global]*Slot
	inInit     bool
	undo       []undoRec
	mapUndo    []mapUndoRec
	steps      int
	depth      int
	loopBound  int
	allocLimit int
	maxSteps   int
	pathSteps  int
	curInitPkg *ssa.Package
	finfo      map[*ssa.Function]*fnInfo
	funcsSeen  map[*ssa.Function]int
	stack      []*ssa.Function
	consts     map[*ssa.Const]Value
	errCounter int
	cfg        map[string]int64 // per-harness parameters
}

type mapUndoRec struct {
	m    *MapObj
	ents []MapEntry
}

type frame struct {
	fn     *ssa.Function
	env    map[ssa.Value]Value
	defers []func()
	loops  map[*ssa.BasicBlock]int
}

func (e *Engine) beginPath() {
	e.depth = 0
	e.stack = e.stack[:0]
	e.pathSteps = 0
	e.errCounter = 0
}

func (e *Engine) endPath() {
	for i := len(e.undo) - 1; i >= 0; i-- {
		u := e.undo[i]
		u.s.val, u.s.ext = u.val, u.ext
	}
	e.undo = e.undo[:0]
	for i := len(e.mapUndo) - 1; i >= 0; i-- {
		e.mapUndo[i].m.ents = e.mapUndo[i].ents
	}
	e.mapUndo = e.mapUndo[:0]
}

const repoMod = "github.com/amzn/ion-go/"

func (e *Engine) info(fn *ssa.Function) *fnInfo {
	if fi, ok := e.finfo[fn]; ok {
		return fi
	}
	fi := &fnInfo{name: fn.String()}
	fi.intr = intrinsics[fi.name]
	if fi.intr != nil && cmdOnlyIntrinsics[fi.name] && !strings.HasSuffix(e.pkg.Pkg.Path(), "/cmd/ion-go") {
		fi.intr = nil // environment stubs of the cmd/ion-go harnesses do not apply when package ion itself is under test
	}
	if fn.Pkg != nil && strings.HasPrefix(fn.Pkg.Pkg.Path(), repoMod) {
		p := e.prog.Fset.Position(fn.Pos())
		if !strings.Contains(p.Filename, "zz_verif_") {
			fi.user = true
		}
	}
	fi.short = canonFunc(fi.name)
	e.finfo[fn] = fi
	return fi
}

// userFunc names the innermost active function of the code under test.
func (e *Engine) userFunc() string {
	for i := len(e.stack) - 1; i >= 0; i-- {
		fi := e.info(e.stack[i])
		if fi.user {
			return fi.short
		}
	}
	if len(e.stack) > 0 {
		return e.info(e.stack[len(e.stack)-1]).short
	}
	return "?"
}

func (e *Engine) topFunc() string {
	if len(e.stack) > 0 {
		return e.info(e.stack[len(e.stack)-1]).short
	}
	return "?"
}

func (e *Engine) global(g *ssa.Global) *Slot {
	s, ok := e.globals[g]
	if !ok {
		was := e.inInit
		e.inInit = true
		s = e.newSlot(g.Type().(*types.Pointer).Elem())
		e.inInit = was
		e.globals[g] = s
	}
	return s
}

func (e *Engine) constVal(c *ssa.Const) Value {
	if v, ok := e.consts[c]; ok {
		return v
	}
	v := e.constVal0(c)
	e.consts[c] = v
	return v
}

func (e *Engine) constVal0(c *ssa.Const) Value {
	t := c.Type()
	if c.Value == nil {
		return e.zero(t)
	}
	switch u := t.Underlying().(type) {
	case *types.Basic:
		switch {
		case u.Info()&types.IsBoolean != 0:
			return e.b.Bool(constant.BoolVal(c.Value))
		case u.Info()&types.IsInteger != 0:
			v, _ := new(big.Int).SetString(constant.ToInt(c.Value).ExactString(), 10)
			return e.b.BV(v, intWidth(u))
		case u.Info()&types.IsString != 0:
			return e.strConst(constant.StringVal(c.Value))
		case u.Info()&types.IsFloat != 0:
			fv, _ := constant.Float64Val(c.Value)
			if floatWidth(u) == 32 {
				return e.b.BVu(uint64(math.Float32bits(float32(fv))), 32)
			}
			return e.b.BVu(math.Float64bits(fv), 64)
		}
	}
	panic(unsupported(fmt.Sprintf("const %v of type %v", c, t)))
}

func (e *Engine) strConst(s string) *StrV {
	r := &StrV{b: make([]*Term, len(s))}
	for i := 0; i < len(s); i++ {
		r.b[i] = e.b.BVu(uint64(s[i]), 8)
	}
	return r
}

func (e *Engine) get(f *frame, v ssa.Value) Value {
	switch x := v.(type) {
	case *ssa.Const:
		return e.constVal(x)
	case *ssa.Global:
		return &Ptr{e.global(x)}
	case *ssa.Function:
		return &FuncV{fn: x}
	case *ssa.Builtin:
		return &FuncV{bi: x}
	}
	r, ok := f.env[v]
	if !ok {
		panic(fmt.Sprintf("no value for %s in %s", v.Name(), f.fn))
	}
	return r
}

func (e *Engine) term(v Value) *Term {
	t, ok := v.(*Term)
	if !ok {
		panic(unsupported(fmt.Sprintf("expected scalar, got %T", v)))
	}
	return t
}

// concrete int from a term, forking if symbolic (concretisation within [lo,hi])
func (e *Engine) concInt(t *Term, signedT bool, what string, lo, hi int64, over func(*Term)) int {
	if t.IsConst() {
		if signedT {
			return int(t.ConstS())
		}
		return int(t.ConstU())
	}
	return int(e.x.concretize(t, signedT, what, lo, hi, over))
}

func (e *Engine) call(fn *ssa.Function, args []Value, free []Value) Value {
	fi := e.info(fn)
	if fi.intr != nil {
		return fi.intr(e, nil, args)
	}
	if fn.Blocks == nil {
		panic(unsupported("external function " + fi.name))
	}
	if fi.user && !e.inInit {
		e.funcsSeen[fn]++
	}
	e.depth++
	if e.depth > 400 {
		panic(unsupported("call depth"))
	}
	e.stack = append(e.stack, fn)
	f := &frame{fn: fn, env: make(map[ssa.Value]Value, 16)}
	for i, p := range fn.Params {
		f.env[p] = args[i]
	}
	for i, fv := range fn.FreeVars {
		f.env[fv] = free[i]
	}
	var prev *ssa.BasicBlock
	blk := fn.Blocks[0]
	for {
		if len(blk.Preds) > 1 {
			if f.loops == nil {
				f.loops = map[*ssa.BasicBlock]int{}
			}
			f.loops[blk]++
			if f.loops[blk] > e.loopBound {
				e.x.unwindFail(fn, blk)
			}
		}
		var next *ssa.BasicBlock
		// phis are evaluated in parallel
		nphi := 0
		for _, ins := range blk.Instrs {
			if _, ok := ins.(*ssa.Phi); !ok {
				break
			}
			nphi++
		}
		if nphi > 0 {
			pi := -1
			for i, p := range blk.Preds {
				if p == prev {
					pi = i
					break
				}
			}
			if nphi == 1 {
				in := blk.Instrs[0].(*ssa.Phi)
				f.env[in] = e.get(f, in.Edges[pi])
			} else {
				vals := make([]Value, nphi)
				for k := 0; k < nphi; k++ {
					vals[k] = e.get(f, blk.Instrs[k].(*ssa.Phi).Edges[pi])
				}
				for k := 0; k < nphi; k++ {
					f.env[blk.Instrs[k].(*ssa.Phi)] = vals[k]
				}
			}
		}
		for _, ins := range blk.Instrs[nphi:] {
			e.steps++
			e.pathSteps++
			if e.maxSteps > 0 && e.pathSteps > e.maxSteps {
				e.x.report("unwind", "step budget", e.userFunc(), "path step budget exceeded", e.b.tt)
				panic(pathEnd{"step budget"})
			}
			switch in := ins.(type) {
			case *ssa.If:
				c := e.term(e.get(f, in.Cond))
				var taken bool
				if c.IsConst() {
					taken = c.ConstBool()
				} else {
					taken = e.x.branch(c)
				}
				if taken {
					next = blk.Succs[0]
				} else {
					next = blk.Succs[1]
				}
			case *ssa.Jump:
				next = blk.Succs[0]
			case *ssa.Return:
				for i := len(f.defers) - 1; i >= 0; i-- {
					f.defers[i]()
				}
				e.depth--
				e.stack = e.stack[:len(e.stack)-1]
				switch len(in.Results) {
				case 0:
					return nil
				case 1:
					return e.get(f, in.Results[0])
				default:
					tv := make(Tuple, len(in.Results))
					for i, r := range in.Results {
						tv[i] = e.get(f, r)
					}
					return tv
				}
			case *ssa.Panic:
				e.x.goPanic(fn, ins, "explicit panic: "+e.panicText(e.get(f, in.X)))
			case *ssa.RunDefers:
				for i := len(f.defers) - 1; i >= 0; i-- {
					f.defers[i]()
				}
				f.defers = nil
			default:
				e.exec(f, ins)
			}
		}
		prev, blk = blk, next
	}
}

func (e *Engine) panicText(v Value) string {
	if i, ok := v.(*Iface); ok && i.t != nil {
		if s, ok := i.v.(*StrV); ok {
			return e.concStr(s)
		}
		return i.t.String()
	}
	return ""
}

func (e *Engine) concStr(s *StrV) string {
	var sb strings.Builder
	for _, c := range s.b {
		if c.IsConst() {
			sb.WriteByte(byte(c.ConstU()))
		} else {
			sb.WriteByte('?')
		}
	}
	return sb.String()
}

func (e *Engine) exec(f *frame, ins ssa.Instruction) {
	switch in := ins.(type) {
	case *ssa.Alloc:
		f.env[in] = &Ptr{e.newSlot(in.Type().(*types.Pointer).Elem())}
	case *ssa.BinOp:
		f.env[in] = e.binop(f, in)
	case *ssa.UnOp:
		f.env[in] = e.unop(f, in)
	case *ssa.Convert:
		f.env[in] = e.convert(f, in)
	case *ssa.ChangeType:
		f.env[in] = e.get(f, in.X)
	case *ssa.Store:
		if sp, ok := e.get(f, in.Addr).(*SymPtr); ok {
			v := e.term(e.get(f, in.Val))
			for i := 0; i < sp.n; i++ {
				k := sp.base.kid(sp.off + i)
				e.store(k, e.b.Ite(e.b.Eq(sp.idx, e.b.BVu(uint64(i), sp.idx.sort.W)), v, e.term(k.val)))
			}
			return
		}
		p := e.get(f, in.Addr).(*Ptr)
		if p.s == nil {
			e.x.goPanic(f.fn, ins, "nil dereference (store)")
		}
		e.store(p.s, e.get(f, in.Val))
	case *ssa.FieldAddr:
		p := e.get(f, in.X).(*Ptr)
		if p.s == nil {
			e.x.goPanic(f.fn, ins, "nil dereference (field)")
		}
		f.env[in] = &Ptr{p.s.kids[in.Field]}
	case *ssa.Field:
		f.env[in] = e.get(f, in.X).(*StructV).f[in.Field]
	case *ssa.IndexAddr:
		f.env[in] = e.indexAddr(f, in)
	case *ssa.Index:
		f.env[in] = e.index(f, in)
	case *ssa.Slice:
		f.env[in] = e.slice(f, in)
	case *ssa.MakeSlice:
		lt := e.term(e.get(f, in.Len))
		ct := e.term(e.get(f, in.Cap))
		over := func(c *Term) {
			// a size the input can push to 256 MiB or more (or negative) is the memory-exhaustion event (the native
			// replay confirms it by a makeslice panic, an out-of-memory death or > 64 MiB allocated); sizes between
			// the harness limit and that are outside the bound of the harness: the path is not followed, and recorded
			for _, sz := range []*Term{lt, ct} {
				huge := e.b.And(c, e.b.Bin(OBvULE, e.b.BVu(1<<28, 64), sz))
				if e.x.feasible(huge) == "sat" {
					e.x.report("alloc", pos(e.prog, f.fn, ins), e.userFunc(), "make size can reach 256 MiB or more (or be negative)", huge)
					return
				}
			}
			e.x.sh.mu.Lock()
			e.x.sh.assumptions[fmt.Sprintf("bound: allocations of more than %d elements (and less than 256 MiB) are outside the harness bound", e.allocLimit)]++
			e.x.sh.mu.Unlock()
		}
		ln := e.concInt(lt, true, "make len", 0, int64(e.allocLimit), over)
		cp := ln
		if ct != lt {
			cp = e.concInt(ct, true, "make cap", 0, int64(e.allocLimit), over)
		}
		if ln < 0 || cp < ln {
			e.x.goPanic(f.fn, ins, "makeslice: len out of range")
		}
		if cp > (1 << 26) {
			e.x.report("alloc", pos(e.prog, f.fn, ins), e.userFunc(), fmt.Sprintf("concrete make size %d", cp), e.b.tt)
			panic(pathEnd{"huge alloc"})
		}
		el := in.Type().Underlying().(*types.Slice).Elem()
		f.env[in] = &SliceV{arr: e.newArraySlot(el, cp), len: ln, cap: cp}
	case *ssa.Extract:
		f.env[in] = e.get(f, in.Tuple).(Tuple)[in.Index]
	case *ssa.Call:
		f.env[in] = e.doCall(f, in, &in.Call)
	case *ssa.Defer:
		c := in.Call
		args := e.callArgs(f, &c)
		if bi, ok := c.Value.(*ssa.Builtin); ok {
			_ = bi
			panic(unsupported("deferred builtin"))
		}
		fv := e.calleeOf(f, &c, &args)
		f.defers = append(f.defers, func() { e.invoke(fv, args) })
	case *ssa.MakeInterface:
		f.env[in] = &Iface{t: in.X.Type(), v: e.get(f, in.X)}
	case *ssa.ChangeInterface:
		f.env[in] = e.get(f, in.X)
	case *ssa.TypeAssert:
		f.env[in] = e.typeAssert(f, in)
	case *ssa.MakeClosure:
		fv := &FuncV{fn: in.Fn.(*ssa.Function)}
		for _, b := range in.Bindings {
			fv.free = append(fv.free, e.get(f, b))
		}
		f.env[in] = fv
	case *ssa.MakeMap:
		f.env[in] = &MapV{&MapObj{}}
	case *ssa.MapUpdate:
		m := e.get(f, in.Map).(*MapV)
		if m.m == nil {
			e.x.goPanic(f.fn, ins, "assignment to entry in nil map")
		}
		k, v := e.get(f, in.Key), e.get(f, in.Value)
		e.mapSet(m.m, k, v)
	case *ssa.Lookup:
		f.env[in] = e.lookup(f, in)
	case *ssa.Range:
		switch x := e.get(f, in.X).(type) {
		case *MapV:
			mo := x.m
			if mo == nil {
				mo = &MapObj{}
			}
			f.env[in] = &IterV{m: &MapObj{ents: append([]MapEntry{}, mo.ents...)}}
		case *StrV:
			f.env[in] = &IterV{str: x}
		default:
			panic(unsupported("range"))
		}
	case *ssa.Next:
		it := e.get(f, in.Iter).(*IterV)
		if it.m != nil {
			if it.pos < len(it.m.ents) {
				en := it.m.ents[it.pos]
				it.pos++
				f.env[in] = Tuple{e.b.tt, en.k, en.v}
			} else {
				f.env[in] = Tuple{e.b.ff, nil, nil}
			}
		} else {
			if it.pos >= len(it.str.b) {
				f.env[in] = Tuple{e.b.ff, e.b.BVu(0, 64), e.b.BVu(0, 32)}
				return
			}
			r, sz := e.decodeRune(&StrV{b: it.str.b[it.pos:]})
			f.env[in] = Tuple{e.b.tt, e.b.BVi(int64(it.pos), 64), r}
			it.pos += sz
		}
	case *ssa.DebugRef:
	default:
		panic(unsupported(fmt.Sprintf("instruction %T", ins)))
	}
}

// decodeRune runs the real unicode/utf8.DecodeRuneInString on s (forks on symbolic bytes).
func (e *Engine) decodeRune(s *StrV) (*Term, int) {
	if len(s.b) > 0 && s.b[0].IsConst() && s.b[0].ConstU() < 0x80 {
		return e.b.BVu(s.b[0].ConstU(), 32), 1
	}
	fn := e.stdFunc("unicode/utf8", "DecodeRuneInString")
	tv := e.call(fn, []Value{s}, nil).(Tuple)
	sz := e.concInt(e.term(tv[1]), true, "rune size", 0, 4, nil)
	return e.term(tv[0]), sz
}

func (e *Engine) stdFunc(pkg, name string) *ssa.Function {
	for _, p := range e.prog.AllPackages() {
		if p.Pkg.Path() == pkg {
			if fn := p.Func(name); fn != nil {
				return fn
			}
		}
	}
	panic(unsupported("missing " + pkg + "." + name))
}

// keyEq decides equality of map keys, forking when it is symbolic.
func (e *Engine) keyEq(a, b Value) bool {
	var c *Term
	switch x := a.(type) {
	case *Term:
		c = e.b.Eq(x, b.(*Term))
	case *StrV:
		y := b.(*StrV)
		if len(x.b) != len(y.b) {
			return false
		}
		c = e.b.tt
		for i := range x.b {
			c = e.b.And(c, e.b.Eq(x.b[i], y.b[i]))
		}
	case *Iface:
		y := b.(*Iface)
		if x.t == nil || y.t == nil {
			return x.t == nil && y.t == nil
		}
		if !types.Identical(x.t, y.t) {
			return false
		}
		return e.keyEq(x.v, y.v)
	case *Ptr:
		return x.s == b.(*Ptr).s
	case *StructV:
		y := b.(*StructV)
		for i := range x.f {
			if !e.keyEq(x.f[i], y.f[i]) {
				return false
			}
		}
		return true
	default:
		panic(unsupported(fmt.Sprintf("map key %T", a)))
	}
	if c.IsConst() {
		return c.ConstBool()
	}
	return e.x.branch(c)
}

func (e *Engine) mapSet(m *MapObj, k, v Value) {
	if !e.inInit {
		e.mapUndo = append(e.mapUndo, mapUndoRec{m, append([]MapEntry(nil), m.ents...)})
	}
	for i := range m.ents {
		if e.keyEq(m.ents[i].k, k) {
			m.ents[i].v = v
			return
		}
	}
	m.ents = append(m.ents, MapEntry{k, v})
}

func (e *Engine) mapDelete(m *MapObj, k Value) {
	if !e.inInit {
		e.mapUndo = append(e.mapUndo, mapUndoRec{m, append([]MapEntry(nil), m.ents...)})
	}
	for i := range m.ents {
		if e.keyEq(m.ents[i].k, k) {
			m.ents = append(append([]MapEntry(nil), m.ents[:i]...), m.ents[i+1:]...)
			return
		}
	}
}

func (e *Engine) lookup(f *frame, in *ssa.Lookup) Value {
	switch x := e.get(f, in.X).(type) {
	case *StrV:
		return e.indexSeq(f, in, len(x.b), func(i int) Value { return x.b[i] }, e.term(e.get(f, in.Index)), isSigned(in.Index.Type()))
	case *MapV:
		k := e.get(f, in.Index)
		vt := in.X.Type().Underlying().(*types.Map).Elem()
		var val Value
		found := false
		if x.m != nil {
			for _, en := range x.m.ents {
				if e.keyEq(en.k, k) {
					val, found = en.v, true
					break
				}
			}
		}
		if !found {
			val = e.zero(vt)
		}
		if in.CommaOk {
			return Tuple{val, e.b.Bool(found)}
		}
		return val
	}
	panic(unsupported("lookup"))
}

// read element at possibly symbolic index from a sequence of n scalar values
func (e *Engine) indexSeq(f *frame, ins ssa.Instruction, n int, at func(int) Value, idx *Term, sg bool) Value {
	if idx.IsConst() {
		var i int
		if sg {
			i = int(idx.ConstS())
		} else {
			i = int(idx.ConstU())
		}
		if i < 0 || i >= n {
			e.x.goPanic(f.fn, ins, fmt.Sprintf("index out of range [%d] with length %d", i, n))
		}
		return at(i)
	}
	w := idx.sort.W
	inb := e.b.Bin(OBvULT, idx, e.b.BVu(uint64(n), w)) // negative signed values are huge unsigned
	if w < 64 && uint64(n) >= uint64(1)<<uint(w) {
		inb = e.b.tt
	}
	e.x.checkPanic(e.b.Not(inb), f.fn, ins, "index out of range (symbolic)")
	if n > 300 {
		i := e.x.concretize(idx, sg, "index", 0, int64(n-1), nil)
		return at(int(i))
	}
	var r *Term
	for i := n - 1; i >= 0; i-- {
		v, ok := at(i).(*Term)
		if !ok {
			j := e.x.concretize(idx, sg, "index", 0, int64(n-1), nil)
			return at(int(j))
		}
		if r == nil {
			r = v
		} else {
			r = e.b.Ite(e.b.Eq(idx, e.b.BVu(uint64(i), w)), v, r)
		}
	}
	if r == nil {
		panic(pathEnd{"index into empty"})
	}
	return r
}

func (e *Engine) indexAddr(f *frame, in *ssa.IndexAddr) Value {
	idx := e.term(e.get(f, in.Index))
	sg := isSigned(in.Index.Type())
	var base *Slot
	off, n := 0, 0
	var elem types.Type
	switch x := e.get(f, in.X).(type) {
	case *Ptr:
		if x.s == nil {
			e.x.goPanic(f.fn, in, "nil dereference (indexaddr)")
		}
		base, n = x.s, len(x.s.kids)
		elem = x.s.typ.Underlying().(*types.Array).Elem()
	case *SliceV:
		base, off, n = x.arr, x.off, x.len
		if base != nil {
			elem = base.typ.Underlying().(*types.Array).Elem()
		}
	}
	var i int
	if idx.IsConst() {
		if sg {
			i = int(idx.ConstS())
		} else {
			i = int(idx.ConstU())
		}
		if i < 0 || i >= n {
			e.x.goPanic(f.fn, in, fmt.Sprintf("index out of range [%d] with length %d", i, n))
		}
	} else {
		w := idx.sort.W
		inb := e.b.Bin(OBvULT, idx, e.b.BVu(uint64(n), w))
		if w < 64 && uint64(n) >= uint64(1)<<uint(w) {
			inb = e.b.tt
		}
		e.x.checkPanic(e.b.Not(inb), f.fn, in, "index out of range (symbolic)")
		if bt, scalar := elem.Underlying().(*types.Basic); scalar && bt.Info()&types.IsString == 0 && n <= 64 && n > 0 {
			return &SymPtr{base: base, off: off, n: n, idx: idx}
		}
		i = int(e.x.concretize(idx, sg, "indexaddr", 0, int64(n-1), nil))
	}
	return &Ptr{base.kid(off + i)}
}

func (e *Engine) index(f *frame, in *ssa.Index) Value {
	idx := e.term(e.get(f, in.Index))
	switch x := e.get(f, in.X).(type) {
	case *ArrayV:
		return e.indexSeq(f, in, len(x.e), func(i int) Value { return x.e[i] }, idx, isSigned(in.Index.Type()))
	case *StrV:
		return e.indexSeq(f, in, len(x.b), func(i int) Value { return x.b[i] }, idx, isSigned(in.Index.Type()))
	}
	panic(unsupported("index"))
}

func (e *Engine) slice(f *frame, in *ssa.Slice) Value {
	bound := func(v ssa.Value, def int) int {
		if v == nil {
			return def
		}
		return e.concInt(e.term(e.get(f, v)), true, "slice bound", -1, 1<<20, nil)
	}
	switch x := e.get(f, in.X).(type) {
	case *StrV:
		lo, hi := bound(in.Low, 0), bound(in.High, len(x.b))
		if lo < 0 || hi > len(x.b) || lo > hi {
			e.x.goPanic(f.fn, in, fmt.Sprintf("slice bounds out of range [%d:%d] len %d", lo, hi, len(x.b)))
		}
		return &StrV{b: x.b[lo:hi]}
	case *SliceV:
		lo, hi := bound(in.Low, 0), bound(in.High, x.len)
		mx := bound(in.Max, x.cap)
		if lo < 0 || hi > x.cap || lo > hi || mx > x.cap || hi > mx {
			e.x.goPanic(f.fn, in, fmt.Sprintf("slice bounds out of range [%d:%d] cap %d", lo, hi, x.cap))
		}
		if x.arr == nil {
			return &SliceV{}
		}
		return &SliceV{arr: x.arr, off: x.off + lo, len: hi - lo, cap: mx - lo}
	case *Ptr: // pointer to array
		if x.s == nil {
			e.x.goPanic(f.fn, in, "nil dereference (slice)")
		}
		n := len(x.s.kids)
		lo, hi := bound(in.Low, 0), bound(in.High, n)
		mx := bound(in.Max, n)
		if lo < 0 || hi > n || lo > hi || mx > n || hi > mx {
			e.x.goPanic(f.fn, in, fmt.Sprintf("slice bounds out of range [%d:%d] len %d", lo, hi, n))
		}
		return &SliceV{arr: x.s, off: lo, len: hi - lo, cap: mx - lo}
	}
	panic(unsupported("slice of " + in.X.Type().String()))
}

func (e *Engine) typeAssert(f *frame, in *ssa.TypeAssert) Value {
	x := e.get(f, in.X).(*Iface)
	ok := false
	var res Value
	_, toIface := in.AssertedType.Underlying().(*types.Interface)
	if x.t != nil {
		if toIface {
			ok = types.Implements(x.t, in.AssertedType.Underlying().(*types.Interface))
			res = x
		} else {
			ok = types.Identical(x.t, in.AssertedType)
			res = x.v
		}
	}
	if in.CommaOk {
		if !ok {
			if toIface {
				res = nilIface
			} else {
				res = e.zero(in.AssertedType)
			}
		}
		return Tuple{res, e.b.Bool(ok)}
	}
	if !ok {
		e.x.goPanic(f.fn, in, "interface conversion failed")
	}
	return res
}

func (e *Engine) callArgs(f *frame, c *ssa.CallCommon) []Value {
	args := make([]Value, 0, len(c.Args)+1)
	for _, a := range c.Args {
		args = append(args, e.get(f, a))
	}
	return args
}

func (e *Engine) calleeOf(f *frame, c *ssa.CallCommon, args *[]Value) *FuncV {
	if c.IsInvoke() {
		recv := e.get(f, c.Value).(*Iface)
		if recv.t == nil {
			e.x.goPanic(f.fn, nil, "nil interface method call "+c.Method.Name())
		}
		if rt, ok := recv.v.(*ReflType); ok {
			name := c.Method.Name()
			return &FuncV{intr: func(args []Value) Value { return e.reflTypeMethod(rt, name, args) }}
		}
		m := e.prog.LookupMethod(recv.t, c.Method.Pkg(), c.Method.Name())
		if m == nil {
			panic(unsupported("method not found " + c.Method.Name() + " on " + recv.t.String()))
		}
		*args = append([]Value{recv.v}, *args...)
		return &FuncV{fn: m}
	}
	return e.get(f, c.Value).(*FuncV)
}

func (e *Engine) invoke(fv *FuncV, args []Value) Value {
	if fv.intr != nil {
		return fv.intr(args)
	}
	if fv.bi != nil {
		panic(unsupported("builtin as value"))
	}
	if fv.fn == nil {
		e.x.goPanic(nil, nil, "call of nil func")
	}
	return e.call(fv.fn, args, fv.free)
}

func (e *Engine) doCall(f *frame, ins ssa.Instruction, c *ssa.CallCommon) Value {
	args := e.callArgs(f, c)
	if bi, ok := c.Value.(*ssa.Builtin); ok {
		return e.builtin(f, ins, bi, c, args)
	}
	fv := e.calleeOf(f, c, &args)
	if fv.fn != nil {
		if fi := e.info(fv.fn); fi.intr != nil {
			return fi.intr(e, f, args)
		}
	}
	return e.invoke(fv, args)
}

func (e *Engine) sliceElems(v Value) []Value {
	switch t := v.(type) {
	case *SliceV:
		out := make([]Value, t.len)
		for i := 0; i < t.len; i++ {
			out[i] = e.load(t.arr.kid(t.off + i))
		}
		return out
	case *StrV:
		out := make([]Value, len(t.b))
		for i, b := range t.b {
			out[i] = b
		}
		return out
	}
	panic(unsupported(fmt.Sprintf("slice elems of %T", v)))
}

func (e *Engine) mkSlice(elem types.Type, vals []Value, cp int) *SliceV {
	if cp < len(vals) {
		cp = len(vals)
	}
	arr := e.newArraySlot(elem, cp)
	for i, v := range vals {
		e.store(arr.kid(i), v)
	}
	return &SliceV{arr: arr, len: len(vals), cap: cp}
}

func (e *Engine) byteSlice(ts []*Term) *SliceV {
	arr := e.newArraySlot(types.Typ[types.Uint8], len(ts))
	for i, t := range ts {
		arr.kid(i).val = t
	}
	return &SliceV{arr: arr, len: len(ts), cap: len(ts)}
}

func (e *Engine) sliceBytes(s *SliceV) []*Term {
	out := make([]*Term, s.len)
	for i := 0; i < s.len; i++ {
		out[i] = e.term(s.arr.kid(s.off + i).val)
	}
	return out
}

func (e *Engine) builtin(f *frame, ins ssa.Instruction, bi *ssa.Builtin, c *ssa.CallCommon, args []Value) Value {
	switch bi.Name() {
	case "recover":
		// a Go panic ends the path as a violation candidate in this engine, so deferred code never runs while
		// panicking: recover() always reports "not panicking"
		return nilIface
	case "len":
		switch x := args[0].(type) {
		case *SliceV:
			return e.b.BVi(int64(x.len), 64)
		case *StrV:
			return e.b.BVi(int64(len(x.b)), 64)
		case *ArrayV:
			return e.b.BVi(int64(len(x.e)), 64)
		case *MapV:
			if x.m == nil {
				return e.b.BVi(0, 64)
			}
			return e.b.BVi(int64(len(x.m.ents)), 64)
		case *Ptr:
			return e.b.BVi(int64(len(x.s.kids)), 64)
		}
	case "cap":
		switch x := args[0].(type) {
		case *SliceV:
			return e.b.BVi(int64(x.cap), 64)
		case *Ptr:
			return e.b.BVi(int64(len(x.s.kids)), 64)
		}
	case "append":
		s := args[0].(*SliceV)
		add := e.sliceElems(args[1])
		if len(add) == 0 {
			return s
		}
		el := c.Args[0].Type().Underlying().(*types.Slice).Elem()
		if s.len+len(add) <= s.cap {
			for i, v := range add {
				e.store(s.arr.kid(s.off+s.len+i), v)
			}
			return &SliceV{arr: s.arr, off: s.off, len: s.len + len(add), cap: s.cap}
		}
		ncap := s.cap * 2
		if ncap < s.len+len(add) {
			ncap = s.len + len(add)
		}
		na := e.newArraySlot(el, ncap)
		for i := 0; i < s.len; i++ {
			e.store(na.kid(i), e.load(s.arr.kid(s.off+i)))
		}
		for i, v := range add {
			e.store(na.kid(s.len+i), v)
		}
		return &SliceV{arr: na, len: s.len + len(add), cap: ncap}
	case "String": // unsafe.String(ptr, len)
		n := e.concInt(e.term(args[1]), true, "unsafe.String len", 0, 1<<16, nil)
		if n == 0 {
			return emptyStr
		}
		r := &StrV{}
		p := args[0].(*Ptr)
		for i := 0; i < n; i++ {
			r.b = append(r.b, e.term(p.s.parent.kid(p.s.pidx+i).val))
		}
		return r
	case "SliceData":
		sl := args[0].(*SliceV)
		if sl.arr == nil || sl.cap == 0 {
			return nilPtr
		}
		return &Ptr{sl.arr.kid(sl.off)}
	case "StringData":
		st := args[0].(*StrV)
		if len(st.b) == 0 {
			return nilPtr
		}
		return &Ptr{e.byteSlice(st.b).arr.kid(0)}
	case "Slice": // unsafe.Slice(ptr, len)
		n := e.concInt(e.term(args[1]), true, "unsafe.Slice len", 0, 1<<16, nil)
		p := args[0].(*Ptr)
		if p.s == nil || n == 0 {
			return &SliceV{}
		}
		return &SliceV{arr: p.s.parent, off: p.s.pidx, len: n, cap: n}
	case "min", "max":
		r := e.term(args[0])
		sg := isSigned(c.Args[0].Type())
		for _, a := range args[1:] {
			t := e.term(a)
			op := OBvULT
			if sg {
				op = OBvSLT
			}
			lt := e.b.Bin(op, t, r)
			if bi.Name() == "max" {
				lt = e.b.Bin(op, r, t)
			}
			r = e.b.Ite(lt, t, r)
		}
		return r
	case "copy":
		d := args[0].(*SliceV)
		src := e.sliceElems(args[1])
		n := len(src)
		if d.len < n {
			n = d.len
		}
		for i := 0; i < n; i++ {
			e.store(d.arr.kid(d.off+i), src[i])
		}
		return e.b.BVi(int64(n), 64)
	case "delete":
		m := args[0].(*MapV)
		if m.m != nil {
			e.mapDelete(m.m, args[1])
		}
		return nil
	case "print", "println":
		return nil
	case "clear":
		switch x := args[0].(type) {
		case *MapV:
			if x.m != nil {
				e.mapUndo = append(e.mapUndo, mapUndoRec{x.m, x.m.ents})
				x.m.ents = nil
			}
			return nil
		}
	}
	panic(unsupported("builtin " + bi.Name()))
}

func (e *Engine) unop(f *frame, in *ssa.UnOp) Value {
	x := e.get(f, in.X)
	switch in.Op {
	case token.MUL:
		if sp, ok := x.(*SymPtr); ok {
			var r *Term
			for i := sp.n - 1; i >= 0; i-- {
				v := e.term(e.load(sp.base.kid(sp.off + i)))
				if r == nil {
					r = v
				} else {
					r = e.b.Ite(e.b.Eq(sp.idx, e.b.BVu(uint64(i), sp.idx.sort.W)), v, r)
				}
			}
			return r
		}
		p := x.(*Ptr)
		if p.s == nil {
			e.x.goPanic(f.fn, in, "nil dereference (load)")
		}
		return e.load(p.s)
	case token.NOT:
		return e.b.Not(e.term(x))
	case token.SUB:
		if isFloat(in.X.Type()) {
			t := e.term(x)
			w := t.sort.W
			return e.b.Bin(OBvXor, t, e.b.BVu(uint64(1)<<uint(w-1), w))
		}
		return e.b.Neg(e.term(x))
	case token.XOR:
		return e.b.BvNot(e.term(x))
	}
	panic(unsupported("unop " + in.Op.String()))
}

func (e *Engine) convert(f *frame, in *ssa.Convert) Value {
	x := e.get(f, in.X)
	from, to := in.X.Type().Underlying(), in.Type().Underlying()
	if tb, ok := to.(*types.Basic); ok {
		if fb, ok := from.(*types.Basic); ok {
			ti, fi := tb.Info(), fb.Info()
			switch {
			case ti&types.IsInteger != 0 && fi&types.IsInteger != 0:
				t := e.term(x)
				w := intWidth(tb)
				if isSigned(from) {
					return e.b.SExt(t, w)
				}
				return e.b.ZExt(t, w)
			case ti&types.IsFloat != 0 && fi&types.IsFloat != 0:
				return e.b.FpCvt(e.term(x), floatWidth(tb))
			case ti&types.IsFloat != 0 && fi&types.IsInteger != 0:
				t := e.term(x)
				if t.IsConst() {
					var fv float64
					if isSigned(from) {
						fv = float64(t.ConstS())
					} else {
						fv = float64(t.ConstU())
					}
					if floatWidth(tb) == 32 {
						return e.b.BVu(uint64(math.Float32bits(float32(fv))), 32)
					}
					return e.b.BVu(math.Float64bits(fv), 64)
				}
				if floatWidth(tb) == 32 {
					return e.b.FpCvt(e.b.FpFromInt(t, isSigned(from)), 32)
				}
				return e.b.FpFromInt(t, isSigned(from))
			case ti&types.IsInteger != 0 && fi&types.IsFloat != 0:
				t := e.term(x)
				if t.IsConst() {
					fv := fpVal(t.u, t.sort.W)
					if isSigned(to) {
						return e.b.BVi(int64(fv), intWidth(tb))
					}
					return e.b.BVu(uint64(fv), intWidth(tb))
				}
				if t.sort.W == 64 && isSigned(to) {
					r := e.b.FpToS(t)
					if w := intWidth(tb); w < 64 {
						return e.b.Extract(r, w-1, 0)
					}
					return r
				}
				panic(unsupported("symbolic float->int conversion (unsigned or float32)"))
			case ti&types.IsString != 0 && fi&types.IsInteger != 0:
				return e.runeToString(e.term(x), isSigned(from))
			case tb.Kind() == types.UnsafePointer || fb.Kind() == types.UnsafePointer:
				return x
			}
		}
		if tb.Info()&types.IsString != 0 {
			if s, ok := x.(*SliceV); ok {
				if el, ok := from.(*types.Slice); ok {
					if eb, ok := el.Elem().Underlying().(*types.Basic); ok && eb.Kind() == types.Int32 { // string([]rune)
						r := &StrV{}
						for i := 0; i < s.len; i++ {
							r.b = append(r.b, e.runeToString(e.term(s.arr.kid(s.off+i).val), true).b...)
						}
						return r
					}
				}
				if s.len == 0 {
					return emptyStr
				}
				return &StrV{b: e.sliceBytes(s)} // string([]byte)
			}
		}
		if tb.Kind() == types.UnsafePointer {
			return x
		}
	}
	if ts, ok := to.(*types.Slice); ok {
		if s, ok := x.(*StrV); ok {
			if eb, ok := ts.Elem().Underlying().(*types.Basic); ok && eb.Kind() == types.Int32 { // []rune(string)
				var rs []Value
				for p := 0; p < len(s.b); {
					r, sz := e.decodeRune(&StrV{b: s.b[p:]})
					rs = append(rs, r)
					p += sz
				}
				return e.mkSlice(ts.Elem(), rs, 0)
			}
			return e.byteSlice(s.b) // []byte(string)
		}
	}
	if _, ok := to.(*types.Pointer); ok {
		return x
	}
	panic(unsupported(fmt.Sprintf("convert %v -> %v", in.X.Type(), in.Type())))
}

// runeToString encodes a rune as UTF-8 (Go semantics: invalid runes become U+FFFD); forks on the length class.
func (e *Engine) runeToString(t *Term, sg bool) *StrV {
	b := e.b
	r := t
	if r.sort.W < 32 {
		if sg {
			r = b.SExt(r, 32)
		} else {
			r = b.ZExt(r, 32)
		}
	} else if r.sort.W > 32 {
		// out of int32 range -> U+FFFD
		fits := b.Eq(b.SExt(b.Extract(r, 31, 0), 64), r)
		if !e.decide(fits) {
			return e.strConst("�")
		}
		r = b.Extract(r, 31, 0)
	}
	c32 := func(v uint64) *Term { return b.BVu(v, 32) }
	invalid := b.Or(b.Bin(OBvSLT, r, c32(0)), b.Or(b.Bin(OBvSLT, c32(0x10FFFF), r),
		b.And(b.Bin(OBvSLE, c32(0xD800), r), b.Bin(OBvSLE, r, c32(0xDFFF)))))
	if e.decide(invalid) {
		return e.strConst("�")
	}
	ex := func(hi, lo int) *Term { return b.ZExt(b.Extract(r, hi, lo), 8) }
	or8 := func(x *Term, v uint64) *Term { return b.Bin(OBvOr, x, b.BVu(v, 8)) }
	switch {
	case e.decide(b.Bin(OBvULT, r, c32(0x80))):
		return &StrV{b: []*Term{b.Extract(r, 7, 0)}}
	case e.decide(b.Bin(OBvULT, r, c32(0x800))):
		return &StrV{b: []*Term{or8(ex(10, 6), 0xC0), or8(ex(5, 0), 0x80)}}
	case e.decide(b.Bin(OBvULT, r, c32(0x10000))):
		return &StrV{b: []*Term{or8(ex(15, 12), 0xE0), or8(ex(11, 6), 0x80), or8(ex(5, 0), 0x80)}}
	default:
		return &StrV{b: []*Term{or8(ex(20, 18), 0xF0), or8(ex(17, 12), 0x80), or8(ex(11, 6), 0x80), or8(ex(5, 0), 0x80)}}
	}
}

// decide returns the truth of c on this path, forking when symbolic.
func (e *Engine) decide(c *Term) bool {
	if c.IsConst() {
		return c.ConstBool()
	}
	return e.x.branch(c)
}

func (e *Engine) strLess(x, y *StrV, orEq bool) *Term {
	b := e.b
	// lexicographic, from the end
	var r *Term
	n := len(x.b)
	if len(y.b) < n {
		n = len(y.b)
	}
	// base: all common bytes equal -> compare lengths
	if orEq {
		r = b.Bool(len(x.b) <= len(y.b))
	} else {
		r = b.Bool(len(x.b) < len(y.b))
	}
	for i := n - 1; i >= 0; i-- {
		lt := b.Bin(OBvULT, x.b[i], y.b[i])
		eq := b.Eq(x.b[i], y.b[i])
		r = b.Or(lt, b.And(eq, r))
	}
	return r
}

func (e *Engine) binop(f *frame, in *ssa.BinOp) Value {
	x, y := e.get(f, in.X), e.get(f, in.Y)
	b := e.b
	switch xv := x.(type) {
	case *Term:
		yt := e.term(y)
		if xv.sort.K == SBool {
			switch in.Op {
			case token.EQL:
				return b.Eq(xv, yt)
			case token.NEQ:
				return b.Not(b.Eq(xv, yt))
			case token.AND:
				return b.And(xv, yt)
			case token.OR:
				return b.Or(xv, yt)
			}
			panic(unsupported("bool binop " + in.Op.String()))
		}
		if isFloat(in.X.Type()) {
			switch in.Op {
			case token.EQL:
				return b.FpCmp(OFpEq, xv, yt)
			case token.NEQ:
				return b.Not(b.FpCmp(OFpEq, xv, yt))
			case token.LSS:
				return b.FpCmp(OFpLt, xv, yt)
			case token.LEQ:
				return b.FpCmp(OFpLe, xv, yt)
			case token.GTR:
				return b.FpCmp(OFpLt, yt, xv)
			case token.GEQ:
				return b.FpCmp(OFpLe, yt, xv)
			}
			if xv.IsConst() && yt.IsConst() {
				a, c := fpVal(xv.u, xv.sort.W), fpVal(yt.u, yt.sort.W)
				var r float64
				switch in.Op {
				case token.ADD:
					r = a + c
				case token.SUB:
					r = a - c
				case token.MUL:
					r = a * c
				case token.QUO:
					r = a / c
				}
				if xv.sort.W == 32 {
					return b.BVu(uint64(math.Float32bits(float32(r))), 32)
				}
				return b.BVu(math.Float64bits(r), 64)
			}
			if xv.sort.W == 64 && (in.Op == token.QUO || in.Op == token.MUL) {
				if in.Op == token.QUO {
					return b.FpBin(OFpDiv, xv, yt)
				}
				return b.FpBin(OFpMul, xv, yt)
			}
			panic(unsupported("symbolic float arithmetic " + in.Op.String()))
		}
		sg := isSigned(in.X.Type())
		w := xv.sort.W
		switch in.Op {
		case token.SHL, token.SHR:
			cnt := yt
			var big *Term // cnt >= w
			if cnt.sort.W > w {
				big = b.Not(b.Bin(OBvULT, cnt, b.BVu(uint64(w), cnt.sort.W)))
				cnt = b.Extract(cnt, w-1, 0)
			} else {
				cnt = b.ZExt(cnt, w)
				big = b.Not(b.Bin(OBvULT, cnt, b.BVu(uint64(w), w)))
			}
			if isSigned(in.Y.Type()) {
				neg := b.Bin(OBvSLT, yt, b.BVu(0, yt.sort.W))
				e.x.checkPanic(neg, f.fn, in, "negative shift amount")
			}
			switch {
			case in.Op == token.SHL:
				return b.Ite(big, b.BVu(0, w), b.Bin(OBvShl, xv, cnt))
			case sg:
				return b.Ite(big, b.Bin(OBvAShr, xv, b.BVu(uint64(w-1), w)), b.Bin(OBvAShr, xv, cnt))
			default:
				return b.Ite(big, b.BVu(0, w), b.Bin(OBvLShr, xv, cnt))
			}
		}
		si := 0
		if sg {
			si = 1
		}
		switch in.Op {
		case token.QUO:
			e.x.checkPanic(b.Eq(yt, b.BVu(0, w)), f.fn, in, "integer divide by zero")
			return b.Bin([2]Op{OBvUDiv, OBvSDiv}[si], xv, yt)
		case token.REM:
			e.x.checkPanic(b.Eq(yt, b.BVu(0, w)), f.fn, in, "integer divide by zero")
			return b.Bin([2]Op{OBvURem, OBvSRem}[si], xv, yt)
		case token.ADD:
			return b.Bin(OBvAdd, xv, yt)
		case token.SUB:
			return b.Bin(OBvSub, xv, yt)
		case token.MUL:
			return b.Bin(OBvMul, xv, yt)
		case token.AND:
			return b.Bin(OBvAnd, xv, yt)
		case token.OR:
			return b.Bin(OBvOr, xv, yt)
		case token.XOR:
			return b.Bin(OBvXor, xv, yt)
		case token.LSS:
			return b.Bin([2]Op{OBvULT, OBvSLT}[si], xv, yt)
		case token.LEQ:
			return b.Bin([2]Op{OBvULE, OBvSLE}[si], xv, yt)
		case token.AND_NOT:
			return b.Bin(OBvAnd, xv, b.BvNot(yt))
		case token.GTR:
			return b.Bin([2]Op{OBvULT, OBvSLT}[si], yt, xv)
		case token.GEQ:
			return b.Bin([2]Op{OBvULE, OBvSLE}[si], yt, xv)
		case token.EQL:
			return b.Eq(xv, yt)
		case token.NEQ:
			return b.Not(b.Eq(xv, yt))
		}
	case *StrV:
		yv := y.(*StrV)
		switch in.Op {
		case token.ADD:
			return &StrV{b: append(append([]*Term{}, xv.b...), yv.b...)}
		case token.EQL, token.NEQ:
			var r *Term
			if len(xv.b) != len(yv.b) {
				r = b.ff
			} else {
				r = b.tt
				for i := range xv.b {
					r = b.And(r, b.Eq(xv.b[i], yv.b[i]))
				}
			}
			if in.Op == token.NEQ {
				r = b.Not(r)
			}
			return r
		case token.LSS:
			return e.strLess(xv, yv, false)
		case token.LEQ:
			return e.strLess(xv, yv, true)
		case token.GTR:
			return e.strLess(yv, xv, false)
		case token.GEQ:
			return e.strLess(yv, xv, true)
		}
	case *Ptr:
		yv := y.(*Ptr)
		eq := xv.s == yv.s
		if in.Op == token.NEQ {
			eq = !eq
		}
		return b.Bool(eq)
	case *Iface:
		yv := y.(*Iface)
		var r *Term
		if xv.t == nil || yv.t == nil {
			r = b.Bool(xv.t == nil && yv.t == nil)
		} else if !types.Identical(xv.t, yv.t) {
			r = b.ff
		} else {
			r = e.valEq(xv.v, yv.v, xv.t)
		}
		if in.Op == token.NEQ {
			r = b.Not(r)
		}
		return r
	case *SliceV:
		yv := y.(*SliceV)
		eq := xv.arr == nil && yv.arr == nil
		if in.Op == token.NEQ {
			eq = !eq
		}
		return b.Bool(eq)
	case *MapV:
		yv := y.(*MapV)
		eq := xv.m == nil && yv.m == nil
		if in.Op == token.NEQ {
			eq = !eq
		}
		return b.Bool(eq)
	case *FuncV:
		eq := xv.fn == nil && xv.bi == nil
		if in.Op == token.NEQ {
			eq = !eq
		}
		return b.Bool(eq)
	case *StructV:
		r := e.valEq(xv, y, in.X.Type())
		if in.Op == token.NEQ {
			r = b.Not(r)
		}
		return r
	case *ArrayV:
		r := e.valEq(xv, y, in.X.Type())
		if in.Op == token.NEQ {
			r = b.Not(r)
		}
		return r
	}
	panic(unsupported(fmt.Sprintf("binop %s on %T (%s)", in.Op, x, strings.TrimSpace(in.String()))))
}

// valEq is Go's == on comparable values.
func (e *Engine) valEq(x, y Value, t types.Type) *Term {
	b := e.b
	switch a := x.(type) {
	case *Term:
		if isFloat(t) {
			return b.FpCmp(OFpEq, a, y.(*Term))
		}
		return b.Eq(a, y.(*Term))
	case *Ptr:
		return b.Bool(a.s == y.(*Ptr).s)
	case *StrV:
		c := y.(*StrV)
		if len(a.b) != len(c.b) {
			return b.ff
		}
		r := b.tt
		for i := range a.b {
			r = b.And(r, b.Eq(a.b[i], c.b[i]))
		}
		return r
	case *StructV:
		c := y.(*StructV)
		st := t.Underlying().(*types.Struct)
		r := b.tt
		for i := range a.f {
			r = b.And(r, e.valEq(a.f[i], c.f[i], st.Field(i).Type()))
		}
		return r
	case *ArrayV:
		c := y.(*ArrayV)
		at := t.Underlying().(*types.Array)
		r := b.tt
		for i := range a.e {
			r = b.And(r, e.valEq(a.e[i], c.e[i], at.Elem()))
		}
		return r
	case *Iface:
		c := y.(*Iface)
		if a.t == nil || c.t == nil {
			return b.Bool(a.t == nil && c.t == nil)
		}
		if !types.Identical(a.t, c.t) {
			return b.ff
		}
		return e.valEq(a.v, c.v, a.t)
	case *ReflType:
		c, ok := y.(*ReflType)
		return b.Bool(ok && types.Identical(a.typ, c.typ))
	}
	panic(unsupported(fmt.Sprintf("== on %T", x)))
}

// canonFunc gives one spelling to ssa and runtime function names: ion.reader.IntValue
func canonFunc(n string) string {
	n = strings.ReplaceAll(n, repoMod, "")
	n = strings.NewReplacer("(", "", ")", "", "*", "").Replace(n)
	return n
}
