package ion

// C08: what a Reader returns does not depend on how the caller navigated. For every well-formed binary document of
// the stated shape (same family as H_C07_bin: n symbolic bytes at top level or as the body of a list / struct /
// annotation wrapper, validated by refBinValid), the top-level values seen by a navigation program that skips values
// without reading them (mode 1), steps into each container and straight out (mode 2) or steps in, reads one child and
// steps out (mode 3) - each sprinkled with calls the Reader must refuse (StepOut at top level, StepIn on a scalar or
// null, accessors of the wrong type) - are identical to those of a plain full traversal.

func vSameSym(a, b vSym) bool {
	return a.present == b.present && a.hasText == b.hasText && a.text == b.text && a.sid == b.sid && a.err == b.err
}

func vSameBytes(a, b []byte) bool {
	if len(a) != len(b) {
		return false
	}
	for i := range a {
		if a[i] != b[i] {
			return false
		}
	}
	return true
}

// vSameHead compares what is visible without reading the scalar payload.
func vSameHead(a, b vEv) bool {
	if a.typ != b.typ || a.null != b.null || !vSameSym(a.field, b.field) || len(a.ann) != len(b.ann) || a.annErr != b.annErr {
		return false
	}
	for i := range a.ann {
		if !vSameSym(a.ann[i], b.ann[i]) {
			return false
		}
	}
	return true
}

func vSamePayload(a, b vEv) bool {
	return a.accErr == b.accErr && a.b == b.b && a.isBig == b.isBig && a.i == b.i && a.f == b.f && a.s == b.s &&
		vSameBytes(a.bs, b.bs) && vSameSym(a.sym, b.sym)
}

func vIsContainer(ev vEv) bool {
	return !ev.null && (ev.typ == ListType || ev.typ == SexpType || ev.typ == StructType)
}

func H_C08_bin() {
	n := vparam("n", 1)
	mode := vparam("mode", 1)
	b := vnondetBytes(n)
	switch kind := vparam("kind", 0); kind {
	case 0xB, 0xC:
		b = vCat(vTLV(byte(kind)<<4, b...), []byte{0x20})
	case 0xD:
		b = vCat(vTLV(0xD0, vCat([]byte{0x84}, b)...), []byte{0x20})
	case 0xE:
		b = vCat(vTLV(0xE0, vCat([]byte{0x81, 0x84}, b)...), []byte{0x20})
	}
	ok, p := refBinValid(b, 9)
	vassume(ok && !p.grey && !p.ts) // C08 quantifies over valid documents
	doc := vWithBVM(b)

	var full []vEv
	r1 := NewReaderBytes(doc)
	vTraverse(r1, 0, 8, false, &full)
	vassume(r1.Err() == nil) // acceptance itself is C03/C07 (H_C07_bin)
	var top []vEv
	for _, ev := range full {
		if ev.depth == 0 {
			top = append(top, ev)
		}
	}

	r := NewReaderBytes(doc)
	k := 0
	for r.Next() {
		vassert(k < len(top), "navigation does not invent values")
		vassert(r.StepOut() != nil, "StepOut at top level is refused")
		var ev vEv
		if mode == 1 {
			ev = vEv{typ: r.Type(), null: r.IsNull()}
			ev.field = vSymOf(r.FieldName())
			as, err := r.Annotations()
			ev.annErr = err != nil
			for i := range as {
				ev.ann = append(ev.ann, vSymOf(&as[i], nil))
			}
			vassert(vSameHead(ev, top[k]), "skipped value shows the same type, nullness and annotations")
		} else {
			vPoke(r)
			ev = vReadCurrent(r, 0)
			vassert(vSameHead(ev, top[k]) && vSamePayload(ev, top[k]), "value identical after refused calls")
		}
		if vIsContainer(ev) {
			if mode >= 2 {
				vassert(r.StepIn() == nil, "StepIn on a container succeeds")
				if mode == 3 {
					if r.Next() {
						vPoke(r)
						vcover("child")
					}
				}
				vassert(r.StepOut() == nil, "StepOut succeeds")
				if top[k].after != 0 {
					vassert(vObserveState(r) == top[k].after, "after StepOut the Reader shows what a full traversal shows after StepOut")
				}
				vcover("container")
			}
		} else {
			vassert(r.StepIn() != nil, "StepIn on a scalar or null is refused")
			vassert(r.Err() == nil, "a refused call does not poison the Reader")
		}
		k++
	}
	vassert(r.Err() == nil, "navigation ends without error on a valid document")
	vassert(k == len(top), "navigation sees every top-level value")
	vobserve("ntop", uint64(k))
	vcover("end")
}
