package main

// gosymex: bounded symbolic execution of the current /repo tree (go/ssa) against harnesses from /verif/harness.
//
//   gosymex -prop C04 -tier quick            run a property's harnesses, write evidence/C04.json
//   gosymex -prop C04 -only H_x              run one harness (development)
//   gosymex -replay replays/C04/H_x-0        re-run one recorded counterexample natively

import (
	"encoding/json"
	"flag"
	"fmt"
	"os"
	"path/filepath"
	"runtime"
	"sort"
	"strconv"
	"strings"
	"sync"
	"time"

	"golang.org/x/tools/go/packages"
	"golang.org/x/tools/go/ssa"
	"golang.org/x/tools/go/ssa/ssautil"
)

type HarnessSpec struct {
	Name        string           `json:"name"`
	Func        string           `json:"func"` // harness function (default: Name); lets one function run under several cfgs
	Tiers       []string         `json:"tiers"`
	Cfg         map[string]int64 `json:"cfg"`
	CfgThorough map[string]int64 `json:"cfg_thorough"`
	BudgetS     int              `json:"budget_s"`
	LoopBound   int              `json:"loop_bound"`
	AllocLimit  int              `json:"alloc_limit"`
	MaxSteps    int              `json:"max_steps"`
	Covers      []string         `json:"covers"` // labels that must be reached (vacuity guard)
	Note        string           `json:"note"`
	AllowUnsup  []string         `json:"allow_unsupported"`
	TimeoutMs   int              `json:"solver_timeout_ms"`
}

func (h HarnessSpec) fn() string {
	if h.Func != "" {
		return h.Func
	}
	return h.Name
}

type PropSpec struct {
	Pkg         string        `json:"pkg"` // ion | cmd
	Level       string        `json:"level"`
	Technique   string        `json:"technique"`
	Outside     []string      `json:"outside"`
	Assumptions []string      `json:"assumptions"`
	Harnesses   []HarnessSpec `json:"harnesses"`
}

type Registry struct {
	Properties map[string]*PropSpec `json:"properties"`
}

type Finding struct {
	ID       string `json:"id"`
	Property string `json:"property"`
	Status   string `json:"status"` // open | fixed
	Match    struct {
		KF      string `json:"kf"`
		Kind    string `json:"kind"`
		Func    string `json:"func"`
		MsgHas  string `json:"msg_has"`
		Harness string `json:"harness"`
	} `json:"match"`
	What    string `json:"what"`
	Witness string `json:"witness"`
	Fixed   string `json:"fixed"`
}

type Findings struct {
	Findings []Finding `json:"findings"`
}

var (
	verifDir    = "/verif"
	repoDir     = "/repo"
	scratchDirs []string
)

func exit(code int) {
	for _, d := range scratchDirs {
		os.RemoveAll(d)
	}
	os.Exit(code)
}

func envs() []string {
	return append(os.Environ(), "GOFLAGS=-mod=mod", "GOPROXY=off", "GOSUMDB=off", "GOTOOLCHAIN=local", "TZ=UTC")
}

type loaded struct {
	prog    *ssa.Program
	pkg     *ssa.Package
	overlay map[string]string // virtual path -> real path (for native replay)
	pkgRel  string
	tmpDir  string
}

func pkgDirs(kind string) (harnessDir, repoRel, pkgName string) {
	if kind == "cmd" {
		return filepath.Join(verifDir, "harness/cmd"), "cmd/ion-go", "main"
	}
	return filepath.Join(verifDir, "harness/ion"), "ion", "ion"
}

// load type-checks and builds SSA for the repo package plus the overlaid harness files, from the current working tree.
func load(kind string) (*loaded, error) {
	hdir, rel, pkgName := pkgDirs(kind)
	ov := map[string][]byte{}
	real := map[string]string{}
	files, _ := filepath.Glob(filepath.Join(hdir, "*.go"))
	for _, f := range files {
		src, err := os.ReadFile(f)
		if err != nil {
			return nil, err
		}
		v := filepath.Join(repoDir, rel, "zz_verif_"+filepath.Base(f))
		if strings.HasSuffix(f, "_test.go") {
			real[v] = f
			continue
		}
		ov[v] = src
		real[v] = f
	}
	// per-process scratch directory (generated runtime files, native test binary), removed on exit, so that
	// concurrent checks do not overwrite each other's files
	tmp := filepath.Join(verifDir, "bin", fmt.Sprintf("gen-%s-%d", kind, os.Getpid()))
	os.MkdirAll(tmp, 0o755)
	scratchDirs = append(scratchDirs, tmp)
	for _, t := range []string{"rt.go", "rt_test.go"} {
		src, err := os.ReadFile(filepath.Join(verifDir, "harness/rt", t+".tmpl"))
		if err != nil {
			return nil, err
		}
		s := strings.Replace(string(src), "PKGNAME", pkgName, 1)
		out := filepath.Join(tmp, t)
		os.WriteFile(out, []byte(s), 0o644)
		v := filepath.Join(repoDir, rel, "zz_verif_"+t)
		real[v] = out
		if !strings.HasSuffix(t, "_test.go") {
			ov[v] = []byte(s)
		}
	}
	cfg := &packages.Config{
		Mode:    packages.LoadAllSyntax,
		Dir:     repoDir,
		Overlay: ov,
		Env:     envs(),
	}
	pkgs, err := packages.Load(cfg, "./"+rel)
	if err != nil {
		return nil, err
	}
	nerr := 0
	packages.Visit(pkgs, nil, func(p *packages.Package) {
		for _, e := range p.Errors {
			if nerr < 20 {
				fmt.Fprintln(os.Stderr, "load error:", e)
			}
			nerr++
		}
	})
	if nerr > 0 {
		return nil, fmt.Errorf("%d load errors", nerr)
	}
	prog, spkgs := ssautil.AllPackages(pkgs, ssa.InstantiateGenerics)
	prog.Build()
	l := &loaded{prog: prog, pkg: spkgs[0], overlay: real, pkgRel: rel, tmpDir: tmp}
	// registry of harness functions for the native driver
	var names []string
	for n, m := range l.pkg.Members {
		if _, ok := m.(*ssa.Function); ok && strings.HasPrefix(n, "H_") {
			names = append(names, n)
		}
	}
	sort.Strings(names)
	var sb strings.Builder
	sb.WriteString("package " + pkgName + "\n\nvar vharnesses = map[string]func(){\n")
	for _, n := range names {
		fmt.Fprintf(&sb, "\t%q: %s,\n", n, n)
	}
	sb.WriteString("}\n")
	regf := filepath.Join(tmp, "reg_test.go")
	os.WriteFile(regf, []byte(sb.String()), 0o644)
	real[filepath.Join(repoDir, rel, "zz_verif_reg_test.go")] = regf
	return l, nil
}

type HarnessResult struct {
	Spec         HarnessSpec
	Sh           *Shared
	Wall         float64
	SolverTime   float64
	Queries      int
	Sat, Unsat   int
	Unk          int
	SolverErr    int
	Funcs        map[string]int
	Instrs       int
	Cfg          map[string]int64
	Validated    int
	Mismatch     []string
	MissingCov   []string
	BadUnsup     []string
	Incomplete   bool
	Reproduced   []Violation
	NotRepro     []Violation
	KnownPrinted map[string]bool
}

func runHarness(l *loaded, spec HarnessSpec, tier string, workers int, seed int64, solverBin string) *HarnessResult {
	fn := l.pkg.Func(spec.fn())
	res := &HarnessResult{Spec: spec, Funcs: map[string]int{}}
	if fn == nil {
		fmt.Printf("ERROR no such harness %s\n", spec.Name)
		res.MissingCov = []string{"<harness missing>"}
		return res
	}
	cfg := map[string]int64{}
	for k, v := range spec.Cfg {
		cfg[k] = v
	}
	if tier == "thorough" {
		for k, v := range spec.CfgThorough {
			cfg[k] = v
		}
	}
	res.Cfg = cfg
	budget := spec.BudgetS
	if budget == 0 {
		budget = 240
	}
	if tier == "thorough" {
		budget *= 2
	}
	if b := os.Getenv("VERIF_BUDGET_S"); b != "" {
		budget, _ = strconv.Atoi(b)
	}
	t0 := time.Now()
	sh := NewShared(workers, seed, t0.Add(time.Duration(budget)*time.Second))
	if tier == "thorough" {
		sh.maxSamples = 32
	}
	res.Sh = sh
	var wg sync.WaitGroup
	var mu sync.Mutex
	tmo := spec.TimeoutMs
	if tmo == 0 {
		tmo = 10000
		if tier == "thorough" {
			tmo = 60000
		}
	}
	for w := 0; w < workers; w++ {
		wg.Add(1)
		go func(w int) {
			defer wg.Done()
			bank := NewBank()
			sol, err := NewSolver(solverBin, tmo)
			if err != nil {
				panic(err)
			}
			if lg := os.Getenv("SMTLOG"); lg != "" && w == 0 {
				lf, _ := os.Create(lg)
				sol.log = lf
			}
			e := &Engine{prog: l.prog, pkg: l.pkg, b: bank, globals: map[*ssa.Global]*Slot{}, finfo: map[*ssa.Function]*fnInfo{},
				funcsSeen: map[*ssa.Function]int{}, consts: map[*ssa.Const]Value{}, loopBound: 100000, allocLimit: 64, maxSteps: 20000000, cfg: cfg}
			if spec.LoopBound > 0 {
				e.loopBound = spec.LoopBound
			}
			if spec.AllocLimit > 0 {
				e.allocLimit = spec.AllocLimit
			}
			if spec.MaxSteps > 0 {
				e.maxSteps = spec.MaxSteps
			}
			x := &Explorer{e: e, s: sol, b: bank, sh: sh, name: spec.Name}
			e.x = x
			e.initGlobals()
			for {
				item, ok := sh.get()
				if !ok {
					break
				}
				x.runItem(fn, item)
			}
			mu.Lock()
			res.SolverTime += sol.Time.Seconds()
			res.Queries += sol.Queries
			res.Sat += sol.Sat
			res.Unsat += sol.Unsat
			res.Unk += sol.Unk
			res.SolverErr += sol.Errors
			for f, n := range e.funcsSeen {
				name := e.info(f).short
				if _, seen := res.Funcs[name]; !seen {
					k := 0
					for _, b := range f.Blocks {
						k += len(b.Instrs)
					}
					res.Instrs += k
				}
				res.Funcs[name] += n
			}
			mu.Unlock()
			sol.Close()
		}(w)
	}
	wg.Wait()
	res.Wall = time.Since(t0).Seconds()
	res.Incomplete = sh.timedOut
	for _, c := range spec.Covers {
		if sh.covered[c] == 0 {
			res.MissingCov = append(res.MissingCov, c)
		}
	}
	for msg := range sh.unsupported {
		ok := false
		for _, a := range spec.AllowUnsup {
			if strings.Contains(msg, a) {
				ok = true
			}
		}
		if !ok {
			res.BadUnsup = append(res.BadUnsup, msg)
		}
	}
	sort.Strings(res.BadUnsup)
	return res
}

func main() {
	prop := flag.String("prop", "", "property id")
	tier := flag.String("tier", "quick", "quick|thorough")
	only := flag.String("only", "", "run only this harness (comma separated)")
	workers := flag.Int("workers", 0, "worker count (default: all cores)")
	replay := flag.String("replay", "", "replay directory")
	solver := flag.String("solver", "z3", "solver binary")
	noReplay := flag.Bool("noreplay", false, "skip native replay/validation (development only)")
	noEvidence := flag.Bool("noevidence", false, "do not write the evidence file (development only)")
	flag.Parse()
	if v := os.Getenv("VERIF_DIR"); v != "" {
		verifDir = v
	}
	if v := os.Getenv("VERIF_REPO"); v != "" {
		repoDir = v
	}
	if v := os.Getenv("VERIF_TIER"); v != "" && *tier == "quick" {
		if v == "thorough" || v == "quick" {
			*tier = v
		}
	}
	if *workers == 0 {
		*workers = runtime.NumCPU()
	}
	seed := int64(1)
	if s := os.Getenv("VERIF_SEED"); s != "" {
		if v, err := strconv.ParseInt(s, 10, 64); err == nil {
			seed = v
		}
	}
	if *replay != "" {
		exit(replayDir(*replay))
	}
	t0 := time.Now()
	var reg Registry
	raw, err := os.ReadFile(filepath.Join(verifDir, "harness/registry.json"))
	if err != nil {
		fmt.Println("ERROR registry:", err)
		os.Exit(2)
	}
	if err := json.Unmarshal(raw, &reg); err != nil {
		fmt.Println("ERROR registry:", err)
		os.Exit(2)
	}
	ps := reg.Properties[*prop]
	if ps == nil {
		fmt.Println("ERROR unknown property", *prop)
		os.Exit(2)
	}
	var kf Findings
	if raw, err := os.ReadFile(filepath.Join(verifDir, "known_findings.json")); err == nil {
		if err := json.Unmarshal(raw, &kf); err != nil {
			fmt.Println("ERROR known_findings.json:", err)
			os.Exit(2)
		}
	}
	l, err := load(ps.Pkg)
	if err != nil {
		fmt.Println("ERROR harness-build:", err)
		writeEvidenceError(*prop, *tier, seed, ps, "harness-build: "+err.Error(), time.Since(t0).Seconds(), *noEvidence)
		exit(2)
	}
	fmt.Printf("loaded+built SSA from %s in %.1fs\n", repoDir, time.Since(t0).Seconds())
	var results []*HarnessResult
	onlySet := map[string]bool{}
	for _, n := range strings.Split(*only, ",") {
		if n != "" {
			onlySet[n] = true
		}
	}
	for _, hs := range ps.Harnesses {
		if len(onlySet) > 0 {
			if !onlySet[hs.Name] {
				continue
			}
		} else {
			in := false
			for _, t := range hs.Tiers {
				if t == *tier {
					in = true
				}
			}
			if !in {
				continue
			}
		}
		r := runHarness(l, hs, *tier, *workers, seed, *solver)
		results = append(results, r)
		sh := r.Sh
		if sh == nil {
			continue
		}
		var cv []string
		for k, v := range sh.covered {
			cv = append(cv, fmt.Sprintf("%s:%d", k, v))
		}
		sort.Strings(cv)
		fmt.Printf("== %s: paths=%d pruned=%d decisions=%d unknown=%d inconclusive=%d queries=%d (sat %d unsat %d) solver=%.1fs wall=%.1fs steps=%d violations=%d incomplete=%v\n",
			hs.Name, sh.Paths, sh.Pruned, sh.Decisions, sh.Unknown, sh.Inconclusive, r.Queries, r.Sat, r.Unsat, r.SolverTime, r.Wall, sh.Steps, len(sh.violations), r.Incomplete)
		fmt.Println("   covered:", strings.Join(cv, " "))
		for m, n := range sh.unsupported {
			fmt.Printf("   unsupported x%d: %s\n", n, m)
		}
		for _, v := range sh.violations {
			fmt.Println("   candidate", describe(v))
		}
	}
	code := finish(*prop, *tier, seed, ps, l, results, &kf, time.Since(t0).Seconds(), *noReplay, *noEvidence)
	exit(code)
}
