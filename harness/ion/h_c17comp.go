package ion

// C17, composite targets: Decoder.DecodeTo into structs (tags, case-insensitive names, unexported / hidden fields,
// pointer fields), slices, arrays, maps, pointers, interface{}, SymbolToken, big.Int, Decimal, Timestamp and
// annotation wrapper structs. reflect is environment (reflect-lite over go/types and the interpreter's storage
// slots, engine/reflectlite*.go); unmarshal.go and fields.go are the code under test.
//
// Every harness asserts (1) no panic on any path (engine: every Go panic incl. the modelled reflect panics is a
// violation) and (2) "nil error => the target holds exactly the Ion value under the documented mapping".

import "math/big"

type vC17Wrap struct {
	V int16
	A []SymbolToken `ion:",annotations"`
}

type vC17WrapDoc struct { // the example of the Unmarshal documentation
	Value   int
	AnyName []string `ion:",annotations"`
}

type vC17Rec struct { // a record with an annotations field is not an annotation wrapper (three fields)
	X int8
	Y int8
	A []SymbolToken `ion:",annotations"`
}

type vC17Emb struct {
	P int8
}

type vC17Struct struct {
	A int8
	B int16 `ion:"b"`
	C *int16
	d int8
	E int8 `ion:"-"`
	vC17Emb
}

// vC17SmallInt: an Ion int of either sign with a one-byte symbolic magnitude.
func vC17SmallInt() (doc []byte, val int64) {
	m := vnondetU8()
	neg := vnondetBool()
	vassume(!(neg && m == 0))
	if m == 0 {
		return []byte{0x20}, 0
	}
	if neg {
		return []byte{0x31, m}, -int64(m)
	}
	return []byte{0x21, m}, int64(m)
}

var vC17Names = []string{"A", "a", "b", "B", "C", "d", "E", "P", "x"}

// vC17LST: a local symbol table declaring vC17Names as $10...
func vC17LST() []byte {
	var syms []byte
	for _, n := range vC17Names {
		syms = vCat(syms, vTLV(0x80, []byte(n)...))
	}
	st := vTLV(0xD0, vCat([]byte{0x87}, vTLV(0xB0, syms...))...)
	return vTLV(0xE0, vCat([]byte{0x81, 0x83}, st)...)
}

func H_C17_comp() {
	kind := vparam("target", 20)
	switch kind {
	case 20: // SymbolToken target
		v := vC17Source()
		var x SymbolToken
		err := NewDecoder(NewReaderBytes(vWithBVM(v.doc))).DecodeTo(&x)
		if err == nil && !v.null {
			vassert(v.typ == SymbolType, "only a symbol fills a SymbolToken")
			if v.sid == 0 {
				vassert(x.Text == nil && x.LocalSID == 0, "$0 is the symbol without text")
			} else {
				vassert(x.Text != nil && *x.Text == rSystemSymbols[v.sid-1], "the SymbolToken holds the symbol's text")
			}
			vcover("filled")
		}
	case 21: // big.Int target
		v := vC17Source()
		var x big.Int
		err := NewDecoder(NewReaderBytes(vWithBVM(v.doc))).DecodeTo(&x)
		if err == nil && !v.null {
			vassert(v.typ == IntType, "only an Ion int fills a big.Int")
			var w *big.Int
			if v.mag < 1<<63 {
				if v.neg {
					w = big.NewInt(-int64(v.mag))
				} else {
					w = big.NewInt(int64(v.mag))
				}
			} else {
				w = new(big.Int).SetUint64(v.mag)
				if v.neg {
					w.Neg(w)
				}
			}
			vassert(x.Cmp(w) == 0, "the big.Int holds exactly the Ion int")
			vcover("filled")
		}
	case 22, 23, 24: // annotation wrapper / documentation example / record with an annotations field <- annotated scalar
		v := vC17Source()
		vassume(!v.null)
		asid := vnondetU8()
		vassume(asid >= 1 && asid <= 9)
		doc := vTLV(0xE0, vCat([]byte{0x81, 0x80 | asid}, v.doc)...)
		d := NewDecoder(NewReaderBytes(vWithBVM(doc)))
		switch kind {
		case 22:
			var x vC17Wrap
			err := d.DecodeTo(&x)
			if err == nil {
				vassert(v.typ == IntType && v.fitsSigned(16) && int64(x.V) == v.signed(), "the value field holds exactly the Ion int")
				vassert(len(x.A) == 1 && x.A[0].Text != nil && *x.A[0].Text == rSystemSymbols[asid-1], "the annotations field holds the annotations")
				vcover("filled")
			}
		case 23:
			var x vC17WrapDoc
			err := d.DecodeTo(&x) // must not panic
			if err == nil {
				vassert(v.typ == IntType && v.fitsSigned(64) && int64(x.Value) == v.signed(), "the value field holds exactly the Ion int")
				vassert(len(x.AnyName) == 1 && x.AnyName[0] == rSystemSymbols[asid-1], "the annotations field holds the annotations")
				vcover("filled")
			}
		default:
			var x vC17Rec
			err := d.DecodeTo(&x)
			vassert(err != nil, "a scalar does not fit a record struct: type mismatch is an error")
		}
	case 25: // struct target <- Ion struct with two fields of symbolic names
		var want vC17Struct
		var wantC *int16
		var body []byte
		bad := false
		for i := 0; i < vparam("n", 2); i++ {
			ni := vnondetInt(0, len(vC17Names)-1)
			idoc, val := vC17SmallInt()
			body = vCat(body, []byte{0x80 | byte(10+ni)}, idoc)
			if bad {
				continue
			}
			switch vC17Names[ni] {
			case "A", "a":
				if val < -128 || val > 127 {
					bad = true
				} else {
					want.A = int8(val)
				}
			case "b", "B":
				want.B = int16(val)
			case "C":
				c := int16(val)
				wantC = &c
			case "P":
				if val < -128 || val > 127 {
					bad = true
				} else {
					want.P = int8(val)
				}
			}
		}
		doc := vCat(vLSTDoc(), vTLV(0xD0, body...))
		var x vC17Struct
		err := NewDecoder(NewReaderBytes(doc)).DecodeTo(&x)
		if bad {
			vassert(err != nil, "a field value that does not fit its field is an error")
		} else {
			vassert(err == nil, "an Ion struct whose values fit is decoded")
			vassert(x.A == want.A && x.B == want.B && x.P == want.P, "fields are matched by name (exact, then case-insensitive) and hold the last value")
			vassert(x.d == 0 && x.E == 0, "unexported and hidden fields are left alone")
			vassert((x.C == nil) == (wantC == nil) && (x.C == nil || *x.C == *wantC), "pointer fields are allocated and filled")
			vcover("filled")
		}
	case 26, 27: // []int8 / [2]int8 <- list of n ints
		n := vnondetInt(0, vparam("n", 3))
		var body []byte
		var vals []int64
		bad := -1
		for i := 0; i < n; i++ {
			idoc, val := vC17SmallInt()
			body = vCat(body, idoc)
			vals = append(vals, val)
			if (val < -128 || val > 127) && bad < 0 {
				bad = i
			}
		}
		code := byte(0xB0)
		if vnondetBool() {
			code = 0xC0
		}
		d := NewDecoder(NewReaderBytes(vWithBVM(vTLV(code, body...))))
		if kind == 26 {
			var x []int8
			err := d.DecodeTo(&x)
			if bad >= 0 {
				vassert(err != nil, "an element that does not fit int8 is an error")
			} else {
				vassert(err == nil, "a list of fitting ints is decoded")
				vassert(len(x) == n, "the slice has one element per Ion value")
				for i := range x {
					vassert(int64(x[i]) == vals[i], "elements are in order")
				}
				vcover("filled")
			}
		} else {
			x := [2]int8{99, 99}
			err := d.DecodeTo(&x)
			if bad >= 0 && bad < 2 {
				vassert(err != nil, "an element that does not fit int8 is an error")
			}
			if err == nil {
				for i := 0; i < 2; i++ {
					if i < n {
						vassert(int64(x[i]) == vals[i], "array elements are in order")
					} else {
						vassert(x[i] == 0, "array elements beyond the list are zeroed")
					}
				}
				vcover("filled")
			}
		}
	case 28: // map[string]int16 <- struct with two fields
		var body []byte
		var names []int
		var vals []int64
		for i := 0; i < vparam("n", 2); i++ {
			ni := vnondetInt(0, 3)
			idoc, val := vC17SmallInt()
			body = vCat(body, []byte{0x80 | byte(10+ni)}, idoc)
			names = append(names, ni)
			vals = append(vals, val)
		}
		var x map[string]int16
		err := NewDecoder(NewReaderBytes(vCat(vLSTDoc(), vTLV(0xD0, body...)))).DecodeTo(&x)
		vassert(err == nil, "an Ion struct of small ints fits map[string]int16")
		distinct := 0
		for i := range names {
			last := true
			for j := i + 1; j < len(names); j++ {
				if names[j] == names[i] {
					last = false
				}
			}
			if last {
				distinct++
				got, ok := x[vC17Names[names[i]]]
				vassert(ok && int64(got) == vals[i], "each field name maps to its (last) value")
			}
		}
		vassert(len(x) == distinct, "the map has exactly the field names")
		vcover("filled")
	case 29: // *int32 (nil) and **int8 <- scalar
		v := vC17Source()
		if vnondetBool() {
			var p *int32
			err := NewDecoder(NewReaderBytes(vWithBVM(v.doc))).DecodeTo(&p)
			if err == nil {
				if v.null {
					vassert(p == nil, "a null leaves a nil pointer")
				} else {
					vassert(p != nil && v.typ == IntType && v.fitsSigned(32) && int64(*p) == v.signed(), "the pointer is allocated and holds exactly the Ion int")
					vcover("filled")
				}
			}
		} else {
			var pp **int8
			err := NewDecoder(NewReaderBytes(vWithBVM(v.doc))).DecodeTo(&pp)
			if err == nil && !v.null {
				vassert(pp != nil && *pp != nil && v.typ == IntType && v.fitsSigned(8) && int64(**pp) == v.signed(), "nested pointers are allocated and hold exactly the Ion int")
			}
		}
	case 30: // interface{} <- list [int, string, null.int] and struct {name: bool}
		m := vnondetU8()
		vassume(m != 0)
		c := vnondetU8()
		vassume(c < 0x80)
		b := vnondetBool()
		var x interface{}
		if vnondetBool() {
			doc := vTLV(0xB0, 0x21, m, 0x81, c, 0x2F)
			err := NewDecoder(NewReaderBytes(vWithBVM(doc))).DecodeTo(&x)
			vassert(err == nil, "a list decodes into interface{}")
			s, ok := x.([]interface{})
			vassert(ok && len(s) == 3, "a list becomes []interface{}")
			iv, ok := s[0].(int)
			vassert(ok && iv == int(m), "ints come out as int")
			switch sv := s[1].(type) { // the untyped decoder hands out *string
			case string:
				vassert(sv == string([]byte{c}), "strings keep their text")
			case *string:
				vassert(sv != nil && *sv == string([]byte{c}), "strings keep their text")
			default:
				vassert(false, "strings come out as string")
			}
			vassert(s[2] == nil, "nulls come out as nil")
		} else {
			bb := byte(0x10)
			if b {
				bb = 0x11
			}
			doc := vTLV(0xD0, 0x84, bb)
			err := NewDecoder(NewReaderBytes(vWithBVM(doc))).DecodeTo(&x)
			vassert(err == nil, "a struct decodes into interface{}")
			mp, ok := x.(map[string]interface{})
			vassert(ok && len(mp) == 1, "a struct becomes map[string]interface{}")
			bv, ok := mp["name"].(bool)
			vassert(ok && bv == b, "fields keep their values")
		}
		vcover("filled")
	case 31: // [2]byte / []byte <- lob of k bytes
		k := vnondetInt(0, 3)
		bs := vnondetBytes(k)
		code := byte(0xA0)
		if vnondetBool() {
			code = 0x90
		}
		d := NewDecoder(NewReaderBytes(vWithBVM(vTLV(code, bs...))))
		if vnondetBool() {
			x := [2]byte{9, 9}
			err := d.DecodeTo(&x)
			if err == nil {
				for i := 0; i < 2; i++ {
					if i < k {
						vassert(x[i] == bs[i], "array bytes are in order")
					} else {
						vassert(x[i] == 0, "array bytes beyond the lob are zeroed")
					}
				}
			}
		} else {
			var x []byte
			err := d.DecodeTo(&x)
			vassert(err == nil && vSameBytes(x, bs), "[]byte holds the lob bytes")
		}
		vcover("filled")
	case 33: // []int8 <- a list longer than the slice's first capacity (growth steps at 4 and 6 elements), also into a preallocated slice
		n := vnondetInt(3, vparam("n", 7))
		var body []byte
		var vals []int8
		for i := 0; i < n; i++ {
			m := vnondetU8() & 0x7F
			vassume(m != 0)
			body = vCat(body, []byte{0x21, m})
			vals = append(vals, int8(m))
		}
		var x []int8
		if vnondetBool() {
			x = make([]int8, 0, 2)
		}
		err := NewDecoder(NewReaderBytes(vWithBVM(vTLV(0xB0, body...)))).DecodeTo(&x)
		vassert(err == nil, "a list of fitting ints is decoded")
		vassert(len(x) == n, "the slice has one element per Ion value")
		for i := range x {
			vassert(x[i] == vals[i], "elements survive the growth of the slice, in order")
		}
		vcover("filled")
	default: // 32: Decimal / Timestamp targets <- scalar sources incl. a decimal and a timestamp
		var doc []byte
		var typ Type
		switch vnondetInt(0, 2) {
		case 0:
			v := vC17Source()
			vassume(!v.null)
			doc, typ = v.doc, v.typ
		case 1:
			e := vnondetU8()
			vassume(e < 0x40)
			c := vnondetU8()
			doc, typ = []byte{0x52, 0x80 | e, c}, DecimalType
		default:
			y := vnondetU8()
			vassume(y >= 1 && y < 0x80)
			doc, typ = []byte{0x62, 0x80, 0x80 | y}, TimestampType
		}
		if vnondetBool() {
			var x Decimal
			err := NewDecoder(NewReaderBytes(vWithBVM(doc))).DecodeTo(&x)
			if err == nil {
				vassert(typ == DecimalType || typ == FloatType, "only a decimal (or a float, converted) fills a Decimal")
				vcover("filled")
			}
		} else {
			var x Timestamp
			err := NewDecoder(NewReaderBytes(vWithBVM(doc))).DecodeTo(&x)
			if err == nil {
				vassert(typ == TimestampType, "only a timestamp fills a Timestamp")
			}
		}
	}
	vcover("end")
}

func vLSTDoc() []byte { return vCat(vBVM, vC17LST()) }
