package main

// Hash-consed term DAG: Bool, bit-vectors up to 64 bits (machine integers, float bit patterns),
// and mathematical Int (model of math/big.Int). Constant folding keeps concrete code solver-free.

import (
	"fmt"
	"math"
	"math/big"
	"strings"
)

type SortKind uint8

const (
	SBool SortKind = iota
	SBV
	SInt
)

type Sort struct {
	K SortKind
	W int
}

func (s Sort) String() string {
	switch s.K {
	case SBool:
		return "Bool"
	case SInt:
		return "Int"
	}
	return fmt.Sprintf("(_ BitVec %d)", s.W)
}

var boolSort = Sort{SBool, 0}
var intSort = Sort{SInt, 0}

type Op uint8

const (
	OConst Op = iota
	OVar
	ONot
	OAnd
	OOr
	OEq
	OIte
	OBvAdd
	OBvSub
	OBvMul
	OBvUDiv
	OBvURem
	OBvSDiv
	OBvSRem
	OBvAnd
	OBvOr
	OBvXor
	OBvShl
	OBvLShr
	OBvAShr
	OBvNeg
	OBvNot
	OBvULT
	OBvULE
	OBvSLT
	OBvSLE
	OConcat
	OExtract
	OZExt
	OSExt
	// floating point over bit patterns (args are BV32/BV64 patterns)
	OFpEq
	OFpLt
	OFpLe
	OFpCvt // i1 = target width; result BV pattern
	OFpDiv   // float64 division (RNE), BV64 patterns
	OFpMul   // float64 multiplication (RNE)
	OFpFromS // signed int (any width) -> float64 pattern (RNE)
	OFpFromU // unsigned int -> float64 pattern (RNE)
	OFpToS   // float64 -> signed int64, toward zero (Go conversion; out of range unspecified)
	OFpRound // math.Round: to integral, ties away from zero
	// mathematical integers
	OIntAdd
	OIntSub
	OIntMul
	OIntNeg
	OIntLE
	OIntLT
	OIntDiv // SMT-LIB div (floor for positive divisor)
	OIntMod
	OBv2Nat
	OInt2Bv // i1 = width
)

var opNames = map[Op]string{ONot: "not", OAnd: "and", OOr: "or", OEq: "=", OIte: "ite", OBvAdd: "bvadd", OBvSub: "bvsub", OBvMul: "bvmul",
	OBvUDiv: "bvudiv", OBvURem: "bvurem", OBvSDiv: "bvsdiv", OBvSRem: "bvsrem", OBvAnd: "bvand", OBvOr: "bvor", OBvXor: "bvxor",
	OBvShl: "bvshl", OBvLShr: "bvlshr", OBvAShr: "bvashr", OBvNeg: "bvneg", OBvNot: "bvnot", OBvULT: "bvult", OBvULE: "bvule",
	OBvSLT: "bvslt", OBvSLE: "bvsle", OConcat: "concat",
	OIntAdd: "+", OIntSub: "-", OIntMul: "*", OIntNeg: "-", OIntLE: "<=", OIntLT: "<", OIntDiv: "div", OIntMod: "mod", OBv2Nat: "bv2nat"}

type Term struct {
	id      int
	op      Op
	sort    Sort
	args    []*Term
	u       uint64   // const value for Bool / BV
	bigv    *big.Int // const value for Int
	name    string
	i1, i2  int
	emitted bool
}

type termKey struct {
	op         Op
	k          SortKind
	w          int
	i1, i2     int
	a0, a1, a2 int
	name       string
}

type constKey struct {
	w int
	u uint64
}

type TermBank struct {
	tab    map[termKey]*Term
	consts map[constKey]*Term
	iconst map[string]*Term
	terms  []*Term
	tt, ff *Term
}

func NewBank() *TermBank {
	b := &TermBank{tab: map[termKey]*Term{}, consts: map[constKey]*Term{}, iconst: map[string]*Term{}}
	b.ff = b.add(&Term{op: OConst, sort: boolSort, u: 0})
	b.tt = b.add(&Term{op: OConst, sort: boolSort, u: 1})
	return b
}

func (b *TermBank) add(t *Term) *Term {
	t.id = len(b.terms)
	b.terms = append(b.terms, t)
	return t
}

func (b *TermBank) mk(t *Term) *Term {
	k := termKey{op: t.op, k: t.sort.K, w: t.sort.W, i1: t.i1, i2: t.i2, a0: -1, a1: -1, a2: -1, name: t.name}
	switch len(t.args) {
	case 3:
		k.a2 = t.args[2].id
		fallthrough
	case 2:
		k.a1 = t.args[1].id
		fallthrough
	case 1:
		k.a0 = t.args[0].id
	case 0:
	default:
		panic("term arity")
	}
	if e, ok := b.tab[k]; ok {
		return e
	}
	b.add(t)
	b.tab[k] = t
	return t
}

func maskU(w int) uint64 {
	if w >= 64 {
		return ^uint64(0)
	}
	return (uint64(1) << uint(w)) - 1
}

func (b *TermBank) BVu(v uint64, w int) *Term {
	v &= maskU(w)
	k := constKey{w, v}
	if t, ok := b.consts[k]; ok {
		return t
	}
	t := b.add(&Term{op: OConst, sort: Sort{SBV, w}, u: v})
	b.consts[k] = t
	return t
}
func (b *TermBank) BVi(v int64, w int) *Term { return b.BVu(uint64(v), w) }
func (b *TermBank) BV(v *big.Int, w int) *Term {
	x := new(big.Int).And(v, new(big.Int).SetUint64(maskU(w)))
	return b.BVu(x.Uint64(), w)
}
func (b *TermBank) Bool(v bool) *Term {
	if v {
		return b.tt
	}
	return b.ff
}
func (b *TermBank) IntC(v *big.Int) *Term {
	s := v.String()
	if t, ok := b.iconst[s]; ok {
		return t
	}
	t := b.add(&Term{op: OConst, sort: intSort, bigv: new(big.Int).Set(v)})
	b.iconst[s] = t
	return t
}
func (b *TermBank) IntI(v int64) *Term { return b.IntC(big.NewInt(v)) }

func (b *TermBank) Var(name string, s Sort) *Term {
	return b.mk(&Term{op: OVar, sort: s, name: name})
}
func (t *Term) IsConst() bool   { return t.op == OConst }
func (t *Term) ConstU() uint64  { return t.u }
func (t *Term) ConstBool() bool { return t.u != 0 }
func (t *Term) ConstS() int64   { return sext(t.u, t.sort.W) }

func sext(u uint64, w int) int64 {
	if w >= 64 {
		return int64(u)
	}
	if u&(uint64(1)<<uint(w-1)) != 0 {
		return int64(u | ^maskU(w))
	}
	return int64(u)
}

func (b *TermBank) Not(x *Term) *Term {
	if x.IsConst() {
		return b.Bool(!x.ConstBool())
	}
	if x.op == ONot {
		return x.args[0]
	}
	return b.mk(&Term{op: ONot, sort: boolSort, args: []*Term{x}})
}
func (b *TermBank) And(x, y *Term) *Term {
	if x.IsConst() {
		if x.ConstBool() {
			return y
		}
		return x
	}
	if y.IsConst() {
		if y.ConstBool() {
			return x
		}
		return y
	}
	if x == y {
		return x
	}
	return b.mk(&Term{op: OAnd, sort: boolSort, args: []*Term{x, y}})
}
func (b *TermBank) Or(x, y *Term) *Term {
	if x.IsConst() {
		if x.ConstBool() {
			return x
		}
		return y
	}
	if y.IsConst() {
		if y.ConstBool() {
			return y
		}
		return x
	}
	if x == y {
		return x
	}
	return b.mk(&Term{op: OOr, sort: boolSort, args: []*Term{x, y}})
}
func (b *TermBank) Eq(x, y *Term) *Term {
	if x == y {
		return b.tt
	}
	if x.sort != y.sort {
		panic(fmt.Sprintf("sort mismatch in =: %v vs %v", x.sort, y.sort))
	}
	if x.IsConst() && y.IsConst() {
		if x.sort.K == SInt {
			return b.Bool(x.bigv.Cmp(y.bigv) == 0)
		}
		return b.Bool(x.u == y.u)
	}
	if x.sort.K == SBool {
		if x.IsConst() {
			x, y = y, x
		}
		if y.IsConst() {
			if y.ConstBool() {
				return x
			}
			return b.Not(x)
		}
	}
	if x.IsConst() {
		x, y = y, x
	}
	// (ite c k1 k2) == k  folds when all are constants
	if y.IsConst() && x.op == OIte && x.args[1].IsConst() && x.args[2].IsConst() && x.sort.K != SInt {
		e1, e2 := x.args[1].u == y.u, x.args[2].u == y.u
		switch {
		case e1 && e2:
			return b.tt
		case e1:
			return x.args[0]
		case e2:
			return b.Not(x.args[0])
		default:
			return b.ff
		}
	}
	// zero-extended value compared with a constant that does not fit
	if y.IsConst() && x.op == OZExt && x.sort.K == SBV {
		iw := x.args[0].sort.W
		if y.u>>uint(iw) != 0 {
			return b.ff
		}
		return b.Eq(x.args[0], b.BVu(y.u, iw))
	}
	if !y.IsConst() && x.id > y.id {
		x, y = y, x
	}
	return b.mk(&Term{op: OEq, sort: boolSort, args: []*Term{x, y}})
}
func (b *TermBank) Ite(c, x, y *Term) *Term {
	if c.IsConst() {
		if c.ConstBool() {
			return x
		}
		return y
	}
	if x == y {
		return x
	}
	if x.sort.K == SBool && x.IsConst() && y.IsConst() {
		if x.ConstBool() {
			return c
		}
		return b.Not(c)
	}
	return b.mk(&Term{op: OIte, sort: x.sort, args: []*Term{c, x, y}})
}

func isCmp(op Op) bool {
	switch op {
	case OBvULT, OBvULE, OBvSLT, OBvSLE:
		return true
	}
	return false
}

func (b *TermBank) Bin(op Op, x, y *Term) *Term {
	w := x.sort.W
	if x.sort != y.sort {
		panic(fmt.Sprintf("sort mismatch in %v: %v vs %v", opNames[op], x.sort, y.sort))
	}
	if x.IsConst() && y.IsConst() {
		if r, ok := foldBin(op, x.u, y.u, w); ok {
			if isCmp(op) {
				return b.Bool(r != 0)
			}
			return b.BVu(r, w)
		}
	}
	isZero := func(t *Term) bool { return t.IsConst() && t.u == 0 }
	isOnes := func(t *Term) bool { return t.IsConst() && t.u == maskU(w) }
	switch op {
	case OBvAdd, OBvOr, OBvXor:
		if isZero(x) {
			return y
		}
		if isZero(y) {
			return x
		}
	case OBvSub, OBvShl, OBvLShr, OBvAShr:
		if isZero(y) {
			return x
		}
	case OBvAnd:
		if isZero(x) || isZero(y) {
			return b.BVu(0, w)
		}
		if isOnes(x) {
			return y
		}
		if isOnes(y) {
			return x
		}
		if x == y {
			return x
		}
		// mask of a zero-extended narrower value that keeps all its bits
		if y.IsConst() && x.op == OZExt {
			iw := x.args[0].sort.W
			if y.u&maskU(iw) == maskU(iw) {
				return x
			}
		}
	case OBvMul:
		if isZero(x) || isZero(y) {
			return b.BVu(0, w)
		}
		if x.IsConst() && x.u == 1 {
			return y
		}
		if y.IsConst() && y.u == 1 {
			return x
		}
	case OBvULT:
		if isZero(y) {
			return b.ff
		}
		if x == y {
			return b.ff
		}
		if y.IsConst() && x.op == OZExt && y.u > maskU(x.args[0].sort.W) {
			return b.tt
		}
	case OBvULE:
		if isZero(x) || x == y {
			return b.tt
		}
		if y.IsConst() && x.op == OZExt && y.u >= maskU(x.args[0].sort.W) {
			return b.tt
		}
	case OBvSLE:
		if x == y {
			return b.tt
		}
	case OBvSLT:
		if x == y {
			return b.ff
		}
	}
	s := Sort{SBV, w}
	if isCmp(op) {
		s = boolSort
	}
	return b.mk(&Term{op: op, sort: s, args: []*Term{x, y}})
}

func bu(v bool) uint64 {
	if v {
		return 1
	}
	return 0
}

func foldBin(op Op, a, c uint64, w int) (uint64, bool) {
	m := maskU(w)
	switch op {
	case OBvAdd:
		return (a + c) & m, true
	case OBvSub:
		return (a - c) & m, true
	case OBvMul:
		return (a * c) & m, true
	case OBvAnd:
		return a & c, true
	case OBvOr:
		return a | c, true
	case OBvXor:
		return a ^ c, true
	case OBvShl:
		if c >= uint64(w) {
			return 0, true
		}
		return (a << c) & m, true
	case OBvLShr:
		if c >= uint64(w) {
			return 0, true
		}
		return a >> c, true
	case OBvAShr:
		sa := sext(a, w)
		sh := uint64(w - 1)
		if c < uint64(w) {
			sh = c
		}
		if sh > 63 {
			sh = 63
		}
		return uint64(sa>>sh) & m, true
	case OBvUDiv:
		if c == 0 {
			return m, true
		}
		return a / c, true
	case OBvURem:
		if c == 0 {
			return a, true
		}
		return a % c, true
	case OBvSDiv:
		if c == 0 {
			return 0, false
		}
		sa, sc := sext(a, w), sext(c, w)
		if sc == -1 {
			return uint64(-sa) & m, true
		}
		return uint64(sa/sc) & m, true
	case OBvSRem:
		if c == 0 {
			return 0, false
		}
		sa, sc := sext(a, w), sext(c, w)
		if sc == -1 {
			return 0, true
		}
		return uint64(sa%sc) & m, true
	case OBvULT:
		return bu(a < c), true
	case OBvULE:
		return bu(a <= c), true
	case OBvSLT:
		return bu(sext(a, w) < sext(c, w)), true
	case OBvSLE:
		return bu(sext(a, w) <= sext(c, w)), true
	}
	return 0, false
}

// Concat: x is the high part.
func (b *TermBank) Concat(x, y *Term) *Term {
	w := x.sort.W + y.sort.W
	if x.IsConst() && y.IsConst() && w <= 64 {
		return b.BVu(x.u<<uint(y.sort.W)|y.u, w)
	}
	if w > 64 {
		panic("concat wider than 64 bits")
	}
	return b.mk(&Term{op: OConcat, sort: Sort{SBV, w}, args: []*Term{x, y}})
}

func (b *TermBank) Neg(x *Term) *Term {
	if x.IsConst() {
		return b.BVu(-x.u, x.sort.W)
	}
	return b.mk(&Term{op: OBvNeg, sort: x.sort, args: []*Term{x}})
}
func (b *TermBank) BvNot(x *Term) *Term {
	if x.IsConst() {
		return b.BVu(^x.u, x.sort.W)
	}
	return b.mk(&Term{op: OBvNot, sort: x.sort, args: []*Term{x}})
}
func (b *TermBank) Extract(x *Term, hi, lo int) *Term {
	if hi == x.sort.W-1 && lo == 0 {
		return x
	}
	if x.IsConst() {
		return b.BVu(x.u>>uint(lo), hi-lo+1)
	}
	if (x.op == OZExt || x.op == OSExt) && lo == 0 && hi < x.args[0].sort.W {
		return b.Extract(x.args[0], hi, lo)
	}
	if x.op == OZExt && lo == 0 && hi >= x.args[0].sort.W {
		return b.ZExt(x.args[0], hi+1)
	}
	if x.op == OZExt && lo >= x.args[0].sort.W {
		return b.BVu(0, hi-lo+1)
	}
	return b.mk(&Term{op: OExtract, sort: Sort{SBV, hi - lo + 1}, args: []*Term{x}, i1: hi, i2: lo})
}
func (b *TermBank) ZExt(x *Term, w int) *Term {
	if w == x.sort.W {
		return x
	}
	if w < x.sort.W {
		return b.Extract(x, w-1, 0)
	}
	if x.IsConst() {
		return b.BVu(x.u, w)
	}
	if x.op == OZExt {
		return b.ZExt(x.args[0], w)
	}
	return b.mk(&Term{op: OZExt, sort: Sort{SBV, w}, args: []*Term{x}, i1: w - x.sort.W})
}
func (b *TermBank) SExt(x *Term, w int) *Term {
	if w == x.sort.W {
		return x
	}
	if w < x.sort.W {
		return b.Extract(x, w-1, 0)
	}
	if x.IsConst() {
		return b.BVu(uint64(sext(x.u, x.sort.W)), w)
	}
	if x.op == OZExt { // sign bit is known zero
		return b.ZExt(x.args[0], w)
	}
	return b.mk(&Term{op: OSExt, sort: Sort{SBV, w}, args: []*Term{x}, i1: w - x.sort.W})
}

// ---- floating point over bit patterns ----

func fpVal(u uint64, w int) float64 {
	if w == 32 {
		return float64(math.Float32frombits(uint32(u)))
	}
	return math.Float64frombits(u)
}

func (b *TermBank) FpCmp(op Op, x, y *Term) *Term {
	if x.IsConst() && y.IsConst() {
		a, c := fpVal(x.u, x.sort.W), fpVal(y.u, y.sort.W)
		switch op {
		case OFpEq:
			return b.Bool(a == c)
		case OFpLt:
			return b.Bool(a < c)
		case OFpLe:
			return b.Bool(a <= c)
		}
	}
	return b.mk(&Term{op: op, sort: boolSort, args: []*Term{x, y}})
}
func fpCvtU(u uint64, from, to int) uint64 {
	if from == to {
		return u
	}
	if from == 64 && to == 32 {
		return uint64(math.Float32bits(float32(math.Float64frombits(u))))
	}
	return math.Float64bits(float64(math.Float32frombits(uint32(u))))
}
func (b *TermBank) FpCvt(x *Term, to int) *Term {
	if x.sort.W == to {
		return x
	}
	if x.IsConst() {
		return b.BVu(fpCvtU(x.u, x.sort.W, to), to)
	}
	return b.mk(&Term{op: OFpCvt, sort: Sort{SBV, to}, args: []*Term{x}, i1: to})
}

func (b *TermBank) FpBin(op Op, x, y *Term) *Term {
	if x.IsConst() && y.IsConst() {
		a, c := math.Float64frombits(x.u), math.Float64frombits(y.u)
		if op == OFpDiv {
			return b.BVu(math.Float64bits(a/c), 64)
		}
		return b.BVu(math.Float64bits(a*c), 64)
	}
	if y.IsConst() && y.u == math.Float64bits(1.0) {
		return x // x/1 == x, x*1 == x (bit-exact for every x except the payload of a signalling NaN)
	}
	return b.mk(&Term{op: op, sort: Sort{SBV, 64}, args: []*Term{x, y}})
}
func (b *TermBank) FpFromInt(x *Term, signed bool) *Term {
	if x.IsConst() {
		if signed {
			return b.BVu(math.Float64bits(float64(sext(x.u, x.sort.W))), 64)
		}
		return b.BVu(math.Float64bits(float64(x.u)), 64)
	}
	op := OFpFromU
	if signed {
		op = OFpFromS
	}
	return b.mk(&Term{op: op, sort: Sort{SBV, 64}, args: []*Term{x}})
}
func (b *TermBank) FpToS(x *Term) *Term {
	if x.IsConst() {
		return b.BVi(int64(math.Float64frombits(x.u)), 64)
	}
	return b.mk(&Term{op: OFpToS, sort: Sort{SBV, 64}, args: []*Term{x}})
}
func (b *TermBank) FpRound(x *Term) *Term {
	if x.IsConst() {
		return b.BVu(math.Float64bits(math.Round(math.Float64frombits(x.u))), 64)
	}
	return b.mk(&Term{op: OFpRound, sort: Sort{SBV, 64}, args: []*Term{x}})
}

// ---- mathematical integers ----

func (b *TermBank) IntBin(op Op, x, y *Term) *Term {
	if x.sort.K != SInt || y.sort.K != SInt {
		panic("IntBin on non-Int")
	}
	if x.IsConst() && y.IsConst() {
		r := new(big.Int)
		switch op {
		case OIntAdd:
			return b.IntC(r.Add(x.bigv, y.bigv))
		case OIntSub:
			return b.IntC(r.Sub(x.bigv, y.bigv))
		case OIntMul:
			return b.IntC(r.Mul(x.bigv, y.bigv))
		case OIntLE:
			return b.Bool(x.bigv.Cmp(y.bigv) <= 0)
		case OIntLT:
			return b.Bool(x.bigv.Cmp(y.bigv) < 0)
		case OIntDiv:
			if y.bigv.Sign() != 0 {
				return b.IntC(r.Div(x.bigv, y.bigv)) // Euclidean, as SMT-LIB
			}
		case OIntMod:
			if y.bigv.Sign() != 0 {
				return b.IntC(r.Mod(x.bigv, y.bigv))
			}
		}
	}
	isC := func(t *Term, v int64) bool { return t.IsConst() && t.bigv.IsInt64() && t.bigv.Int64() == v }
	switch op {
	case OIntAdd:
		if isC(x, 0) {
			return y
		}
		if isC(y, 0) {
			return x
		}
	case OIntSub:
		if isC(y, 0) {
			return x
		}
		if x == y {
			return b.IntI(0)
		}
	case OIntMul:
		if isC(x, 1) {
			return y
		}
		if isC(y, 1) {
			return x
		}
		if isC(x, 0) || isC(y, 0) {
			return b.IntI(0)
		}
		if !x.IsConst() && y.IsConst() { // constants first: canonical
			x, y = y, x
		} else if !x.IsConst() && !y.IsConst() && x.id > y.id {
			x, y = y, x
		}
	case OIntDiv:
		if isC(y, 1) {
			return x
		}
	case OIntLE:
		if x == y {
			return b.tt
		}
	case OIntLT:
		if x == y {
			return b.ff
		}
	}
	s := intSort
	if op == OIntLE || op == OIntLT {
		s = boolSort
	}
	return b.mk(&Term{op: op, sort: s, args: []*Term{x, y}})
}
func (b *TermBank) IntNeg(x *Term) *Term {
	if x.IsConst() {
		return b.IntC(new(big.Int).Neg(x.bigv))
	}
	if x.op == OIntNeg {
		return x.args[0]
	}
	return b.mk(&Term{op: OIntNeg, sort: intSort, args: []*Term{x}})
}
func (b *TermBank) Bv2Nat(x *Term) *Term {
	if x.IsConst() {
		return b.IntC(new(big.Int).SetUint64(x.u))
	}
	return b.mk(&Term{op: OBv2Nat, sort: intSort, args: []*Term{x}})
}

// Bv2Int interprets x as a two's complement signed value.
func (b *TermBank) Bv2IntS(x *Term) *Term {
	if x.IsConst() {
		return b.IntI(sext(x.u, x.sort.W))
	}
	w := x.sort.W
	neg := b.Bin(OBvSLT, x, b.BVu(0, w))
	two := new(big.Int).Lsh(big.NewInt(1), uint(w))
	return b.Ite(neg, b.IntBin(OIntSub, b.Bv2Nat(x), b.IntC(two)), b.Bv2Nat(x))
}
func (b *TermBank) Int2Bv(x *Term, w int) *Term {
	if x.IsConst() {
		m := new(big.Int).Lsh(big.NewInt(1), uint(w))
		r := new(big.Int).Mod(x.bigv, m)
		return b.BVu(r.Uint64(), w)
	}
	if x.op == OBv2Nat && x.args[0].sort.W <= w {
		return b.ZExt(x.args[0], w)
	}
	if x.op == OIte {
		return b.Ite(x.args[0], b.Int2Bv(x.args[1], w), b.Int2Bv(x.args[2], w))
	}
	if (x.op == OIntSub || x.op == OIntAdd) && x.args[1].IsConst() {
		m := new(big.Int).Lsh(big.NewInt(1), uint(w))
		if new(big.Int).Mod(x.args[1].bigv, m).Sign() == 0 {
			return b.Int2Bv(x.args[0], w)
		}
	}
	return b.mk(&Term{op: OInt2Bv, sort: Sort{SBV, w}, args: []*Term{x}, i1: w})
}

// ---- SMT printing: each non-leaf term is emitted once as a define-fun named tN ----

func (t *Term) ref() string {
	switch t.op {
	case OConst:
		switch t.sort.K {
		case SBool:
			if t.ConstBool() {
				return "true"
			}
			return "false"
		case SInt:
			if t.bigv.Sign() < 0 {
				return "(- " + new(big.Int).Neg(t.bigv).String() + ")"
			}
			return t.bigv.String()
		}
		return fmt.Sprintf("(_ bv%d %d)", t.u, t.sort.W)
	case OVar:
		return t.name
	}
	return fmt.Sprintf("t%d", t.id)
}

func fpOf(ref string, w int) string {
	if w == 32 {
		return "((_ to_fp 8 24) " + ref + ")"
	}
	return "((_ to_fp 11 53) " + ref + ")"
}

func (t *Term) body() string {
	var sb strings.Builder
	switch t.op {
	case OExtract:
		fmt.Fprintf(&sb, "((_ extract %d %d) %s)", t.i1, t.i2, t.args[0].ref())
	case OZExt:
		fmt.Fprintf(&sb, "((_ zero_extend %d) %s)", t.i1, t.args[0].ref())
	case OSExt:
		fmt.Fprintf(&sb, "((_ sign_extend %d) %s)", t.i1, t.args[0].ref())
	case OInt2Bv:
		fmt.Fprintf(&sb, "((_ int2bv %d) %s)", t.i1, t.args[0].ref())
	case OFpEq, OFpLt, OFpLe:
		n := map[Op]string{OFpEq: "fp.eq", OFpLt: "fp.lt", OFpLe: "fp.leq"}[t.op]
		fmt.Fprintf(&sb, "(%s %s %s)", n, fpOf(t.args[0].ref(), t.args[0].sort.W), fpOf(t.args[1].ref(), t.args[1].sort.W))
	case OFpDiv:
		fmt.Fprintf(&sb, "(fp.to_ieee_bv (fp.div RNE %s %s))", fpOf(t.args[0].ref(), 64), fpOf(t.args[1].ref(), 64))
	case OFpMul:
		fmt.Fprintf(&sb, "(fp.to_ieee_bv (fp.mul RNE %s %s))", fpOf(t.args[0].ref(), 64), fpOf(t.args[1].ref(), 64))
	case OFpFromS:
		fmt.Fprintf(&sb, "(fp.to_ieee_bv ((_ to_fp 11 53) RNE %s))", t.args[0].ref())
	case OFpFromU:
		fmt.Fprintf(&sb, "(fp.to_ieee_bv ((_ to_fp_unsigned 11 53) RNE %s))", t.args[0].ref())
	case OFpToS:
		fmt.Fprintf(&sb, "((_ fp.to_sbv 64) RTZ %s)", fpOf(t.args[0].ref(), 64))
	case OFpRound:
		fmt.Fprintf(&sb, "(fp.to_ieee_bv (fp.roundToIntegral RNA %s))", fpOf(t.args[0].ref(), 64))
	case OFpCvt:
		src := fpOf(t.args[0].ref(), t.args[0].sort.W)
		if t.i1 == 32 {
			fmt.Fprintf(&sb, "(fp.to_ieee_bv ((_ to_fp 8 24) RNE %s))", src)
		} else {
			fmt.Fprintf(&sb, "(fp.to_ieee_bv ((_ to_fp 11 53) RNE %s))", src)
		}
	default:
		sb.WriteString("(" + opNames[t.op])
		for _, a := range t.args {
			sb.WriteString(" " + a.ref())
		}
		sb.WriteString(")")
	}
	return sb.String()
}

// ---- evaluation under a model (model-based feasibility shortcut, translator validation) ----

type Model struct {
	bv   map[string]uint64
	ints map[string]*big.Int
}

type evalVal struct {
	u uint64
	b *big.Int
}

func (bk *TermBank) Eval(t *Term, m *Model, cache map[int]evalVal) evalVal {
	if t.op == OConst {
		return evalVal{t.u, t.bigv}
	}
	if v, ok := cache[t.id]; ok {
		return v
	}
	var r evalVal
	ev := func(i int) evalVal { return bk.Eval(t.args[i], m, cache) }
	switch t.op {
	case OVar:
		if t.sort.K == SInt {
			if v, ok := m.ints[t.name]; ok {
				r.b = v
			} else {
				r.b = new(big.Int)
			}
		} else {
			r.u = m.bv[t.name]
		}
	case ONot:
		r.u = bu(ev(0).u == 0)
	case OAnd:
		r.u = bu(ev(0).u != 0 && ev(1).u != 0)
	case OOr:
		r.u = bu(ev(0).u != 0 || ev(1).u != 0)
	case OEq:
		if t.args[0].sort.K == SInt {
			r.u = bu(ev(0).b.Cmp(ev(1).b) == 0)
		} else {
			r.u = bu(ev(0).u == ev(1).u)
		}
	case OIte:
		if ev(0).u != 0 {
			r = ev(1)
		} else {
			r = ev(2)
		}
	case OBvNeg:
		r.u = (-ev(0).u) & maskU(t.sort.W)
	case OBvNot:
		r.u = (^ev(0).u) & maskU(t.sort.W)
	case OExtract:
		r.u = (ev(0).u >> uint(t.i2)) & maskU(t.sort.W)
	case OZExt:
		r.u = ev(0).u
	case OSExt:
		r.u = uint64(sext(ev(0).u, t.args[0].sort.W)) & maskU(t.sort.W)
	case OConcat:
		r.u = ev(0).u<<uint(t.args[1].sort.W) | ev(1).u
	case OFpEq:
		r.u = bu(fpVal(ev(0).u, t.args[0].sort.W) == fpVal(ev(1).u, t.args[1].sort.W))
	case OFpLt:
		r.u = bu(fpVal(ev(0).u, t.args[0].sort.W) < fpVal(ev(1).u, t.args[1].sort.W))
	case OFpLe:
		r.u = bu(fpVal(ev(0).u, t.args[0].sort.W) <= fpVal(ev(1).u, t.args[1].sort.W))
	case OFpCvt:
		r.u = fpCvtU(ev(0).u, t.args[0].sort.W, t.i1)
	case OFpDiv:
		r.u = math.Float64bits(math.Float64frombits(ev(0).u) / math.Float64frombits(ev(1).u))
	case OFpMul:
		r.u = math.Float64bits(math.Float64frombits(ev(0).u) * math.Float64frombits(ev(1).u))
	case OFpFromS:
		r.u = math.Float64bits(float64(sext(ev(0).u, t.args[0].sort.W)))
	case OFpFromU:
		r.u = math.Float64bits(float64(ev(0).u))
	case OFpToS:
		r.u = uint64(int64(math.Float64frombits(ev(0).u)))
	case OFpRound:
		r.u = math.Float64bits(math.Round(math.Float64frombits(ev(0).u)))
	case OIntAdd:
		r.b = new(big.Int).Add(ev(0).b, ev(1).b)
	case OIntSub:
		r.b = new(big.Int).Sub(ev(0).b, ev(1).b)
	case OIntMul:
		r.b = new(big.Int).Mul(ev(0).b, ev(1).b)
	case OIntNeg:
		r.b = new(big.Int).Neg(ev(0).b)
	case OIntLE:
		r.u = bu(ev(0).b.Cmp(ev(1).b) <= 0)
	case OIntLT:
		r.u = bu(ev(0).b.Cmp(ev(1).b) < 0)
	case OIntDiv:
		d := ev(1).b
		if d.Sign() == 0 {
			r.b = new(big.Int)
		} else {
			r.b = new(big.Int).Div(ev(0).b, d)
		}
	case OIntMod:
		d := ev(1).b
		if d.Sign() == 0 {
			r.b = new(big.Int).Set(ev(0).b)
		} else {
			r.b = new(big.Int).Mod(ev(0).b, d)
		}
	case OBv2Nat:
		r.b = new(big.Int).SetUint64(ev(0).u)
	case OInt2Bv:
		mm := new(big.Int).Lsh(big.NewInt(1), uint(t.i1))
		r.u = new(big.Int).Mod(ev(0).b, mm).Uint64()
	default:
		w := t.args[0].sort.W
		v, ok := foldBin(t.op, ev(0).u, ev(1).u, w)
		if !ok { // signed division by zero: SMT-LIB semantics
			a := ev(0).u
			if t.op == OBvSDiv {
				if sext(a, w) < 0 {
					v = 1
				} else {
					v = maskU(w)
				}
			} else {
				v = a
			}
		}
		r.u = v
	}
	cache[t.id] = r
	return r
}

// dependsOnUnspecified reports terms whose value the Go-side evaluator cannot reproduce exactly
// (division by zero, NaN conversions); the model shortcut is skipped for them.
func (t *Term) hasFp() bool { return t.op == OFpCvt || (t.op >= OFpDiv && t.op <= OFpRound) }
