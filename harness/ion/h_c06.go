package ion

// C06 (no crash / hang / runaway allocation) and the permanence half of C07, over every byte string of a stated
// length: the real Reader (binary behind a version marker, or text) is created on n fully symbolic bytes and driven
// by a full traversal that enters every container and calls every accessor, right and wrong type, on every value.
// Every Go panic condition on the way (nil dereference, index, slice bounds, type assertion, division, make size,
// explicit panic) is a solver query; loops are bounded by the unwinding limit (a hang shows as an unwind failure).

// vAfter checks that an error, once reported, is permanent (C07, last sentence).
func vAfter(r Reader) {
	e1 := r.Err()
	more := r.Next()
	e2 := r.Err()
	if e1 != nil {
		vassert(!more, "Next stays false after an error")
		vassert(e2 == e1, "Err keeps returning the same error")
		more2 := r.Next()
		vassert(!more2 && r.Err() == e1, "error still permanent on the second extra Next")
		vcover("err")
	} else {
		vcover("ok")
	}
}

func H_C06_bin() {
	n := vparam("n", 1)
	b := vnondetBytes(n)
	r := NewReaderBytes(vWithBVM(b))
	var evs []vEv
	vTraverse(r, 0, 4, true, &evs)
	vobserve("nev", uint64(len(evs)))
	vAfter(r)
	vcover("end")
}

func H_C06_text() {
	n := vparam("n", 1)
	b := vnondetBytes(n)
	vassume(b[0] != 0xE0) // a leading 0xE0 selects the binary reader, covered by H_C06_bin
	r := NewReaderBytes(b)
	var evs []vEv
	vTraverse(r, 0, 4, true, &evs)
	vobserve("nev", uint64(len(evs)))
	vAfter(r)
	vcover("end")
}

// Hostile local symbol tables: $ion_symbol_table::{imports:X, symbols:Y} where X and Y are arbitrary one-byte
// binary values (every typed null, empty containers, booleans, zero-length scalars, reserved tags).
func H_C06_lst_slots() {
	x, y := vnondetU8(), vnondetU8()
	doc := vWithBVM([]byte{0xE7, 0x81, 0x83, 0xD4, 0x86, x, 0x87, y, 0x71, 0x04})
	r := NewReaderBytes(doc)
	var evs []vEv
	vTraverse(r, 0, 4, true, &evs)
	vobserve("nev", uint64(len(evs)))
	vAfter(r)
	vcover("end")
}

// vTLV builds a binary value with an inline length (< 14).
func vTLV(code byte, body ...byte) []byte {
	if len(body) >= 14 {
		out := []byte{code | 14, 0x80 | byte(len(body))}
		return append(out, body...)
	}
	out := []byte{code | byte(len(body))}
	return append(out, body...)
}

func vCat(parts ...[]byte) []byte {
	var out []byte
	for _, p := range parts {
		out = append(out, p...)
	}
	return out
}

// $ion_symbol_table::{imports:[{name:X, version:Y, max_id:Z}]}: one slot (param slot) holds an arbitrary one-byte
// value, the other two are drawn from small sets of hostile and ordinary values.
func H_C06_lst_import() {
	slot := vparam("slot", 0)
	pick := func(i int, opts [][]byte) []byte {
		if i == slot {
			return []byte{vnondetU8()}
		}
		return opts[vnondetInt(0, len(opts)-1)]
	}
	x := pick(0, [][]byte{{0x81, 'a'}, {0x8F}, {0x0F}})
	y := pick(1, [][]byte{{0x21, 0x01}, {0x2F}, {0x20}})
	z := pick(2, [][]byte{{0x21, 0x02}, {0x2F}, {0x0F}})
	imp := vTLV(0xD0, vCat([]byte{0x84}, x, []byte{0x85}, y, []byte{0x88}, z)...)
	lst := vTLV(0xD0, vCat([]byte{0x86}, vTLV(0xB0, imp...))...)
	doc := vCat(vBVM, vTLV(0xE0, vCat([]byte{0x81, 0x83}, lst)...), []byte{0x71, 0x04})
	r := NewReaderBytes(doc)
	var evs []vEv
	vTraverse(r, 0, 4, true, &evs)
	vobserve("nev", uint64(len(evs)))
	vAfter(r)
	vcover("end")
}

// H_C06_nav: "driving it with any sequence of calls": n symbolic bytes (binary behind a version marker, param kind
// as in H_C07_bin; param first=1 restricts the first byte to the three container type codes so that navigation has
// something to enter) driven by a symbolic navigation program: Next, then K calls each chosen by a solver variable
// from {Next, StepIn, StepOut}, with every accessor called after each step. Nothing may panic, whatever the calls
// return; after an error the Reader must stay in error.
func H_C06_nav() {
	n := vparam("n", 2)
	K := vparam("K", 3)
	b := vnondetBytes(n)
	if vparam("first", 1) == 1 {
		vassume(b[0]>>4 >= 0xB && b[0]>>4 <= 0xD)
	}
	switch kind := vparam("kind", 0); kind {
	case 0xB, 0xC:
		b = vCat(vTLV(byte(kind)<<4, b...), []byte{0x20})
	case 0xD:
		b = vCat(vTLV(0xD0, vCat([]byte{0x84}, b)...), []byte{0x20})
	case 0xE:
		b = vCat(vTLV(0xE0, vCat([]byte{0x81, 0x84}, b)...), []byte{0x20})
	}
	var r Reader
	if vparam("text", 0) == 1 {
		r = NewReaderBytes(b)
	} else {
		r = NewReaderBytes(vWithBVM(b))
	}
	r.Next()
	vPoke(r)
	for i := 0; i < K; i++ {
		switch vnondetInt(0, 2) {
		case 0:
			r.Next()
		case 1:
			r.StepIn()
		default:
			r.StepOut()
		}
		vPoke(r)
	}
	vcover("end")
}

// H_C06_annot_header: an annotation wrapper with a symbolic length nibble, a symbolic annotation-length field and a
// symbolic annotation ID, inside a 3-byte list, followed by two symbolic bytes and an int tag whose 10-byte VarUInt
// length has 64 symbolic value bits (what a reader that runs past the wrapper would interpret as further annotation
// IDs and as the enclosed value's tag and length). Full
// traversal with every accessor: nothing may panic. (The wrapper's own arithmetic - annotation length against the
// wrapper length - is unsigned; an underflow there is only reachable with a matching 10-byte VarUInt behind it.)
func H_C06_annot_header() {
	w, a, i := vnondetU8(), vnondetU8(), vnondetU8()
	vassume(w>>4 == 0xE)
	x1, x2 := vnondetU8(), vnondetU8()
	// behind the list: two more bytes, then an int tag with a 10-byte VarUInt length whose 64 value bits are symbolic
	v := vnondetBytes(10)
	for j := range v {
		v[j] &= 0x7F
	}
	v[9] |= 0x80
	doc := vCat(vBVM, []byte{0xB3, w, a, i, x1, x2, 0x2E}, v, []byte{0x20})
	r := NewReaderBytes(doc)
	var evs []vEv
	vTraverse(r, 0, 4, true, &evs)
	vAfter(r)
	vcover("end")
}

// H_C06_declared_len: a top-level value of scalar type code t (int, decimal, timestamp, symbol, string, clob, blob) whose
// length field is a VarUInt with 63 symbolic value bits (the solver chooses it), followed by k <= 2 payload bytes and the end
// of input. The reader must not crash or allocate memory in proportion to the DECLARED length of a value the input
// does not contain: every make() whose size the input can push to 256 MiB or more is the engine's alloc event.
func H_C06_declared_len() {
	t := byte(vparam("t", 2))
	v := vnondetBytes(9)
	for j := range v {
		v[j] &= 0x7F
	}
	v[8] |= 0x80
	k := vnondetInt(0, 2)
	doc := vCat(vBVM, []byte{t<<4 | 0xE}, v, vnondetBytes(k))
	r := NewReaderBytes(doc)
	var evs []vEv
	vTraverse(r, 0, 2, true, &evs)
	vAfter(r)
	vcover("end")
}

// H_C06_tsfrac: a binary timestamp 2000-01-01T00:00:00 whose fractional-seconds field has a five-byte exponent VarInt with
// a symbolic sign, symbolic high and low bits (the solver chooses them) and a coefficient that is absent or 1. No exponent may make
// the reader panic, or compute / allocate in proportion to the exponent (big.Int.Exp with an exponent taken from the
// input that can reach 2^28 is the engine's resource event).
func H_C06_tsfrac() {
	// five-byte VarInt: the first byte (sign bit 6 and the six highest value bits) and the last byte (the seven lowest
	// value bits) are symbolic, the three in between are zero or all ones: exponents near 0, near +-2^28 multiples and
	// near the int32 limits (a fully symbolic 34-bit exponent leaves the Int-theory queries undecided)
	hi, lo := vnondetU8()&0x7F, vnondetU8()&0x7F
	mid := byte(0)
	if vnondetBool() {
		mid = 0x7F
	}
	vassume(hi&0x3F != 0) // |exponent| >= 2^28: the hostile range (small exponents, with symbolic fractions: C15)
	e := []byte{hi, mid, mid, mid, 0x80 | lo}
	// the coefficient is absent (zero) or 1: with a symbolic coefficient the nanoseconds stay symbolic and the calendar
	// arithmetic of package time (divisions) leaves the queries undecided
	var coef []byte
	if vnondetBool() {
		coef = []byte{1}
	}
	body := vCat([]byte{0x80, 0x0F, 0xD0, 0x81, 0x81, 0x80, 0x80, 0x80}, e, coef)
	doc := vCat(vBVM, vTLV(0x60, body...), []byte{0x20})
	r := NewReaderBytes(doc)
	var evs []vEv
	vTraverse(r, 0, 2, true, &evs)
	vAfter(r)
	vcover("end")
}

// H_C06_decode: the untyped Decoder and DecodeTo(&interface{}) on top of the Reader over n symbolic bytes (binary after
// the version marker: at top level, or as the body of a list / struct / annotation wrapper; param kind as in H_C07_bin):
// Decode is called until it reports an error or ErrNoInput; nothing may panic, and the loop must end.
func H_C06_decode() {
	n := vparam("n", 1)
	b := vnondetBytes(n)
	switch kind := vparam("kind", 0); kind {
	case 0xB, 0xC:
		b = vCat(vTLV(byte(kind)<<4, b...), []byte{0x20})
	case 0xD:
		b = vCat(vTLV(0xD0, vCat([]byte{0x84}, b)...), []byte{0x20})
	case 0xE:
		b = vCat(vTLV(0xE0, vCat([]byte{0x81, 0x84}, b)...), []byte{0x20})
	}
	doc := vWithBVM(b)
	d := NewDecoder(NewReaderBytes(doc))
	steps := 0
	for {
		_, err := d.Decode()
		if err != nil {
			break
		}
		steps++
		vassert(steps <= len(doc), "Decode makes progress: no more values than input bytes")
	}
	d2 := NewDecoder(NewReaderBytes(doc))
	for i := 0; i <= len(doc); i++ {
		var x interface{}
		if d2.DecodeTo(&x) != nil {
			break
		}
	}
	vobserve("n", uint64(steps))
	vcover("end")
}
