package ion

import "math/big"

// refBinDecode: a decoder for Ion 1.0 binary written from the specification
// (amzn.github.io/ion-docs/docs/binary.html, symbols.html) and sharing no code with ion-go. It turns the bytes of a
// stream (version marker included) into a flat list of events with payloads and tracks the symbol context
// (version markers, local symbol tables that replace or append, imports resolved against an optional catalog of
// shared tables), so that every symbol ID is resolved by text. ok=false <=> the stream is malformed.
// Deliberately simple: explicit loops, no library calls, no tables.

type rSym struct {
	sid   uint64
	known bool // text is defined
	text  string
	undef bool // sid is above the max_id of the table in force (or is not resolvable)
}

type rEv struct {
	depth    int
	typ      Type
	null     bool
	hasField bool
	field    rSym
	ann      []rSym
	// payload
	b       bool
	neg     bool   // int / decimal coefficient sign
	mag     []byte // int magnitude, big-endian, as encoded (may carry leading zeros)
	fbits   uint64 // float64 bits (a 4-byte float is widened exactly)
	f32     bool
	dexp    int64  // decimal exponent
	dexpBig bool   // exponent does not fit int64
	sym     rSym
	bs      []byte // string / clob / blob bytes
	ts      rTs
	lstVal  bool // this top-level value (and its children) is a local symbol table
}

type rTs struct {
	offKnown             bool
	offMin               int64
	year, month, day     uint64
	hour, minute, second uint64
	prec                 int // 1 year .. 6 second (fraction digits counted separately)
	fracExp              int64
	fracNeg              bool
	fracMag              []byte
	hasFrac              bool
	bad                  bool // calendar fields impossible
}

type rShared struct {
	name    string
	version int64
	symbols []string
}

type rSlot struct {
	known bool
	text  string
}

type rDec struct {
	b      []byte
	evs    []rEv
	table  []rSlot // slot i holds SID i+1
	cat    []rShared
	undef  bool // some SID used by the stream is not defined by the table in force
	unsure bool // construct whose meaning the specification leaves open (listed where set)
	nbvm   int
	importErr bool // an import lacks a usable max_id and has no exact catalog match: the stream is in error
}

var rSystemSymbols = []string{"$ion", "$ion_1_0", "$ion_symbol_table", "name", "version", "imports", "symbols", "max_id", "$ion_shared_symbol_table"}

func (d *rDec) resetTable() {
	d.table = d.table[:0]
	for _, s := range rSystemSymbols {
		d.table = append(d.table, rSlot{true, s})
	}
}

func (d *rDec) resolve(sid uint64) rSym {
	if sid == 0 {
		return rSym{sid: 0} // $0: defined, no text
	}
	if sid > uint64(len(d.table)) {
		d.undef = true
		return rSym{sid: sid, undef: true}
	}
	sl := d.table[sid-1]
	return rSym{sid: sid, known: sl.known, text: sl.text}
}

// varuint reads a VarUInt in [pos,end). fits=false if it needs more than 64 bits.
func (d *rDec) varuint(pos, end int) (v uint64, np int, ok bool) {
	for i := pos; i < end; i++ {
		c := d.b[i]
		if v>>57 != 0 {
			return 0, 0, false
		}
		v = v<<7 | uint64(c&0x7F)
		if c&0x80 != 0 {
			return v, i + 1, true
		}
	}
	return 0, 0, false
}

// varint reads a VarInt; magnitude limited to 63 bits.
func (d *rDec) varint(pos, end int) (v int64, negZero bool, np int, ok bool) {
	if pos >= end {
		return 0, false, 0, false
	}
	c := d.b[pos]
	neg := c&0x40 != 0
	mag := uint64(c & 0x3F)
	i := pos
	for c&0x80 == 0 {
		i++
		if i >= end {
			return 0, false, 0, false
		}
		c = d.b[i]
		if mag>>56 != 0 {
			return 0, false, 0, false
		}
		mag = mag<<7 | uint64(c&0x7F)
	}
	if neg {
		return -int64(mag), mag == 0, i + 1, true
	}
	return int64(mag), false, i + 1, true
}

func rDaysIn(year, month uint64) uint64 {
	switch month {
	case 4, 6, 9, 11:
		return 30
	case 2:
		if year%4 == 0 && (year%100 != 0 || year%400 == 0) {
			return 29
		}
		return 28
	}
	return 31
}

func (d *rDec) timestamp(pos, end int) (ts rTs, ok bool) {
	off, negZero, p, ok := d.varint(pos, end)
	if !ok {
		return ts, false
	}
	ts.offKnown = !negZero
	ts.offMin = off
	if off <= -1440 || off >= 1440 {
		ts.bad = true
	}
	ts.year, p, ok = d.varuint(p, end)
	if !ok {
		return ts, false
	}
	ts.prec = 1
	ts.month, ts.day = 1, 1
	if ts.year < 1 || ts.year > 9999 {
		ts.bad = true
	}
	if p == end {
		return ts, true
	}
	ts.month, p, ok = d.varuint(p, end)
	if !ok {
		return ts, false
	}
	ts.prec = 2
	if ts.month < 1 || ts.month > 12 {
		ts.bad = true
	}
	if p == end {
		return ts, true
	}
	ts.day, p, ok = d.varuint(p, end)
	if !ok {
		return ts, false
	}
	ts.prec = 3
	if ts.day < 1 || (!ts.bad && ts.day > rDaysIn(ts.year, ts.month)) || ts.day > 31 {
		ts.bad = true
	}
	if p == end {
		return ts, true
	}
	ts.hour, p, ok = d.varuint(p, end)
	if !ok {
		return ts, false
	}
	if p == end {
		return ts, false // an hour without minutes is illegal
	}
	ts.minute, p, ok = d.varuint(p, end)
	if !ok {
		return ts, false
	}
	ts.prec = 4
	if ts.hour > 23 || ts.minute > 59 {
		ts.bad = true
	}
	if p == end {
		return ts, true
	}
	ts.second, p, ok = d.varuint(p, end)
	if !ok {
		return ts, false
	}
	ts.prec = 5
	if ts.second > 59 {
		ts.bad = true
	}
	if p == end {
		return ts, true
	}
	var nz bool
	ts.fracExp, nz, p, ok = d.varint(p, end)
	_ = nz
	if !ok {
		return ts, false
	}
	ts.hasFrac = true
	if p < end {
		ts.fracNeg = d.b[p]&0x80 != 0
		ts.fracMag = append(ts.fracMag, d.b[p]&0x7F)
		ts.fracMag = append(ts.fracMag, d.b[p+1:end]...)
	}
	return ts, true
}

// f32to64 widens an IEEE single to a double exactly, in integer arithmetic.
func rF32to64(u uint32) uint64 {
	sign := uint64(u>>31) << 63
	exp := uint64(u>>23) & 0xFF
	man := uint64(u) & 0x7FFFFF
	switch {
	case exp == 0xFF:
		return sign | 0x7FF<<52 | man<<29
	case exp == 0:
		if man == 0 {
			return sign
		}
		// subnormal single: normalise
		e := uint64(1023 - 126)
		for man&0x800000 == 0 {
			man <<= 1
			e--
		}
		man &= 0x7FFFFF
		return sign | e<<52 | man<<29
	}
	return sign | (exp+1023-127)<<52 | man<<29
}

// value decodes one value or NOP pad at pos within [pos,end). isVal=false for padding.
func (d *rDec) value(pos, end int, wrapped bool, depth int, hasField bool, field rSym, anns []rSym) (np int, isVal bool, ok bool) {
	if pos >= end {
		return 0, false, false
	}
	ev := &rEv{hasField: hasField, field: field, ann: anns}
	tag := d.b[pos]
	t, l := tag>>4, tag&0x0F
	pos++
	if t == 15 {
		return 0, false, false
	}
	if t == 14 && (l < 3 || l == 15) {
		return 0, false, false
	}
	ev.depth = depth
	switch t {
	case 0:
		ev.typ = NullType
	case 1:
		ev.typ = BoolType
	case 2, 3:
		ev.typ = IntType
	case 4:
		ev.typ = FloatType
	case 5:
		ev.typ = DecimalType
	case 6:
		ev.typ = TimestampType
	case 7:
		ev.typ = SymbolType
	case 8:
		ev.typ = StringType
	case 9:
		ev.typ = ClobType
	case 10:
		ev.typ = BlobType
	case 11:
		ev.typ = ListType
	case 12:
		ev.typ = SexpType
	case 13:
		ev.typ = StructType
	}
	if l == 15 {
		ev.null = true
		d.evs = append(d.evs, *ev)
		return pos, true, true
	}
	if t == 1 {
		if l > 1 {
			return 0, false, false
		}
		ev.b = l == 1
		d.evs = append(d.evs, *ev)
		return pos, true, true
	}
	length := uint64(l)
	if l == 14 || (t == 13 && l == 1) {
		v, n2, ok := d.varuint(pos, end)
		if !ok {
			return 0, false, false
		}
		if t == 13 && l == 1 && v == 0 {
			d.unsure = true // sorted struct must have at least one field; an explicit length 0 is not addressed
		}
		length, pos = v, n2
	}
	if length > uint64(end-pos) {
		return 0, false, false
	}
	be := pos + int(length)
	body := d.b[pos:be]
	switch t {
	case 0:
		if wrapped {
			return 0, false, false
		}
		return be, false, true
	case 2:
		ev.mag = body
	case 3:
		ev.neg = true
		ev.mag = body
		zero := true
		for _, c := range body {
			if c != 0 {
				zero = false
			}
		}
		if zero {
			return 0, false, false
		}
	case 4:
		switch length {
		case 0:
			ev.fbits = 0
		case 4:
			ev.f32 = true
			ev.fbits = rF32to64(uint32(body[0])<<24 | uint32(body[1])<<16 | uint32(body[2])<<8 | uint32(body[3]))
		case 8:
			for _, c := range body {
				ev.fbits = ev.fbits<<8 | uint64(c)
			}
		default:
			return 0, false, false
		}
	case 5:
		if length > 0 {
			x, _, q, ok := d.varint(pos, be)
			if !ok {
				// either truncated/malformed, or wider than 63 bits
				done := false
				for _, c := range body {
					if c&0x80 != 0 {
						done = true
						break
					}
				}
				if !done {
					return 0, false, false
				}
				ev.dexpBig = true
				d.unsure = true
				break
			}
			ev.dexp = x
			if q < be {
				ev.neg = d.b[q]&0x80 != 0
				ev.mag = append(ev.mag, d.b[q]&0x7F)
				ev.mag = append(ev.mag, d.b[q+1:be]...)
			}
		}
	case 6:
		ts, ok := d.timestamp(pos, be)
		if !ok || ts.bad {
			return 0, false, false
		}
		ev.ts = ts
	case 7:
		if length > 8 {
			d.unsure = true
			break
		}
		var v uint64
		for _, c := range body {
			v = v<<8 | uint64(c)
		}
		ev.sym = d.resolve(v)
	case 8:
		if !refUTF8(body) {
			return 0, false, false
		}
		ev.bs = body
	case 9, 10:
		ev.bs = body
	case 11, 12, 13:
		if depth > 6 {
			d.unsure = true
			return 0, false, false
		}
		// the container's own event goes first; children are appended by seq
		d.evs = append(d.evs, *ev)
		if !d.seq(pos, be, t == 13, depth+1) {
			return 0, false, false
		}
		return be, true, true
	case 14:
		if wrapped {
			return 0, false, false
		}
		al, q, ok := d.varuint(pos, be)
		if !ok || al == 0 || al > uint64(be-q) {
			return 0, false, false
		}
		ae := q + int(al)
		for q < ae {
			v, q2, ok := d.varuint(q, ae)
			if !ok {
				return 0, false, false
			}
			anns = append(anns, d.resolve(v))
			q = q2
		}
		vp, isv, ok := d.value(ae, be, true, depth, hasField, field, anns)
		if !ok || !isv || vp != be {
			return 0, false, false
		}
		return be, true, true
	}
	d.evs = append(d.evs, *ev)
	return be, true, true
}

func (d *rDec) seq(pos, end int, isStruct bool, depth int) bool {
	for pos < end {
		if depth == 0 && end-pos >= 4 && d.b[pos] == 0xE0 {
			if d.b[pos+1] == 0x01 && d.b[pos+2] == 0x00 && d.b[pos+3] == 0xEA {
				d.resetTable()
				d.nbvm++
				pos += 4
				continue
			}
			return false
		}
		var field rSym
		if isStruct {
			v, q, ok := d.varuint(pos, end)
			if !ok {
				return false
			}
			pos = q
			// a field name in front of NOP padding is not a symbol use
			undefBefore := d.undef
			field = d.resolve(v)
			np, isv, ok := d.value(pos, end, false, depth, true, field, nil)
			if !ok {
				return false
			}
			if !isv {
				d.undef = undefBefore
			}
			pos = np
			continue
		}
		start := len(d.evs)
		np, isv, ok := d.value(pos, end, false, depth, false, field, nil)
		if !ok {
			return false
		}
		if isv && depth == 0 {
			d.maybeLST(start)
		}
		pos = np
	}
	return true
}

// maybeLST: a top-level struct whose first annotation is $ion_symbol_table is a local symbol table; it changes the
// context for everything after it. Events of the table itself are marked lstVal.
func (d *rDec) maybeLST(idx int) {
	ev := d.evs[idx]
	if ev.typ != StructType || ev.null || len(ev.ann) == 0 || ev.ann[0].sid != 3 {
		return
	}
	for i := idx; i < len(d.evs); i++ {
		d.evs[i].lstVal = true
	}
	var newTab []rSlot
	appendMode := false
	var imports []rSlot
	var locals []rSlot
	seenImports, seenSymbols := false, false
	i := idx + 1
	for i < len(d.evs) {
		c := d.evs[i]
		if c.depth != 1 {
			i++
			continue
		}
		switch c.field.sid {
		case 6: // imports
			if seenImports {
				d.unsure = true
			}
			seenImports = true
			if c.typ == SymbolType && !c.null && c.sym.sid == 3 {
				appendMode = true
			} else if c.typ == ListType && !c.null {
				j := i + 1
				for j < len(d.evs) && d.evs[j].depth >= 2 {
					if d.evs[j].depth == 2 && d.evs[j].typ == StructType && !d.evs[j].null {
						imports = append(imports, d.importSlots(j)...)
					}
					j++
				}
			}
		case 7: // symbols
			if seenSymbols {
				d.unsure = true
			}
			seenSymbols = true
			if c.typ == ListType && !c.null {
				j := i + 1
				for j < len(d.evs) && d.evs[j].depth >= 2 {
					if d.evs[j].depth == 2 {
						e := d.evs[j]
						if e.typ == StringType && !e.null {
							locals = append(locals, rSlot{true, string(e.bs)})
						} else {
							locals = append(locals, rSlot{})
						}
					}
					j++
				}
			}
		}
		i++
	}
	if appendMode {
		newTab = append(newTab, d.table...)
	} else {
		for _, s := range rSystemSymbols {
			newTab = append(newTab, rSlot{true, s})
		}
	}
	newTab = append(newTab, imports...)
	newTab = append(newTab, locals...)
	d.table = newTab
}

// importSlots interprets one import struct (event index j): name, version, max_id; resolved against the catalog.
func (d *rDec) importSlots(j int) []rSlot {
	name, haveName := "", false
	version := int64(1)
	maxID, haveMax := uint64(0), false
	for k := j + 1; k < len(d.evs) && d.evs[k].depth >= 3; k++ {
		e := d.evs[k]
		if e.depth != 3 {
			continue
		}
		switch e.field.sid {
		case 4:
			if e.typ == StringType && !e.null {
				name, haveName = string(e.bs), true
			}
		case 5:
			if e.typ == IntType && !e.null && !e.neg {
				v, fits := refUint(e.mag)
				if fits && v >= 1 && v>>62 == 0 {
					version = int64(v)
				}
			}
		case 8:
			if e.typ == IntType && !e.null && !e.neg {
				v, fits := refUint(e.mag)
				if fits {
					maxID, haveMax = v, true
				}
			}
		}
	}
	if !haveName || name == "" || name == "$ion" {
		return nil // ignored per specification
	}
	// catalog lookup: exact, else the highest version
	var exact, best *rShared
	for c := range d.cat {
		s := &d.cat[c]
		if s.name != name {
			continue
		}
		if s.version == version {
			exact = s
		}
		if best == nil || s.version > best.version {
			best = s
		}
	}
	use := exact
	if use == nil {
		use = best
		if !haveMax {
			d.importErr = true // error per specification
			return nil
		}
	}
	if !haveMax {
		maxID = uint64(len(use.symbols))
	}
	if maxID > 1<<16 {
		d.unsure = true
		return nil
	}
	out := make([]rSlot, 0, int(maxID))
	for i := uint64(0); i < maxID; i++ {
		if use != nil && i < uint64(len(use.symbols)) {
			out = append(out, rSlot{true, use.symbols[i]})
		} else {
			out = append(out, rSlot{})
		}
	}
	return out
}

// refBinDecode decodes a whole stream; the first four bytes must be the version marker.
func refBinDecode(b []byte, cat []rShared) (d *rDec, ok bool) {
	d = &rDec{b: b, cat: cat}
	if len(b) < 4 || b[0] != 0xE0 || b[1] != 0x01 || b[2] != 0x00 || b[3] != 0xEA {
		return d, false
	}
	d.resetTable()
	ok = d.seq(0, len(b), false, 0)
	return d, ok
}

// user events: everything that is not part of a local symbol table
func (d *rDec) user() []rEv {
	var out []rEv
	for _, e := range d.evs {
		if !e.lstVal {
			out = append(out, e)
		}
	}
	return out
}

// ---- comparison of a reference event with what the real Reader showed ----

func rSymMatches(x rSym, g vSym) bool {
	if !g.present || g.err {
		return false
	}
	if x.known {
		return g.hasText && g.text == x.text
	}
	return !g.hasText && uint64(g.sid) == x.sid
}

func rStripZeros(m []byte) []byte {
	for len(m) > 0 && m[0] == 0 {
		m = m[1:]
	}
	return m
}

// rIntMatches compares the reference integer (sign, magnitude) with the Reader's int64 / *big.Int.
func rIntMatches(x rEv, g vEv) bool {
	m := rStripZeros(x.mag)
	if len(m) < 8 || (len(m) == 8 && m[0] < 0x80) {
		var v uint64
		for _, c := range m {
			v = v<<8 | uint64(c)
		}
		want := int64(v)
		if x.neg {
			want = -want
		}
		return !g.isBig && g.i == want
	}
	if !g.isBig {
		// -2^63 may be held either way
		if x.neg && len(m) == 8 && m[0] == 0x80 {
			rest := true
			for _, c := range m[1:] {
				if c != 0 {
					rest = false
				}
			}
			return rest && g.i == -1<<63
		}
		return false
	}
	want := new(big.Int).SetBytes(m) // big-endian magnitude per the math/big documentation
	if x.neg {
		want.Neg(want)
	}
	return g.big.Cmp(want) == 0
}

// rMatches compares head and payload of one event. Timestamps are compared by rTsMatches separately.
func rMatches(x rEv, g vEv) bool {
	if g.depth != x.depth || g.typ != x.typ || g.null != x.null || g.accErr || g.annErr || g.field.err {
		return false
	}
	if g.field.present != x.hasField {
		return false
	}
	if x.hasField && !rSymMatches(x.field, g.field) {
		return false
	}
	if len(g.ann) != len(x.ann) {
		return false
	}
	for i := range x.ann {
		if !rSymMatches(x.ann[i], g.ann[i]) {
			return false
		}
	}
	if x.null {
		return true
	}
	switch x.typ {
	case BoolType:
		return g.b == x.b
	case IntType:
		return rIntMatches(x, g)
	case FloatType:
		if x.fbits&0x7FF0000000000000 == 0x7FF0000000000000 && x.fbits&0x000FFFFFFFFFFFFF != 0 {
			return g.f&0x7FF0000000000000 == 0x7FF0000000000000 && g.f&0x000FFFFFFFFFFFFF != 0 // NaN as NaN
		}
		return g.f == x.fbits
	case SymbolType:
		return rSymMatches(x.sym, g.sym)
	case StringType:
		return g.s == string(x.bs)
	case ClobType, BlobType:
		return vSameBytes(g.bs, x.bs)
	case DecimalType:
		return rDecMatches(x, g)
	}
	return true
}

func rDecMatches(x rEv, g vEv) bool {
	if g.dec == nil || x.dexpBig {
		return false
	}
	coef, exp := g.dec.CoEx()
	if int64(exp) != x.dexp {
		return false
	}
	zero := true
	for _, c := range x.mag {
		if c != 0 {
			zero = false
		}
	}
	if zero {
		return coef.Sign() == 0 && g.dec.isNegZero == x.neg
	}
	want := new(big.Int).SetBytes(x.mag)
	if x.neg {
		want.Neg(want)
	}
	return !g.dec.isNegZero && coef.Cmp(want) == 0
}
