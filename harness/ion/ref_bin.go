package ion

// refBin: a structural validator / event counter for Ion 1.0 binary, written from the specification
// (amzn.github.io/ion-docs/docs/binary.html) and sharing no code with ion-go. It decides whether a byte string
// (after the version marker) is a well-formed sequence of values: every declared length fits and is exactly filled,
// containers nest exactly, tags and type/length combinations are legal, negative zero ints are rejected, strings are
// UTF-8, annotation wrappers hold >=1 annotation and exactly one non-NOP, non-annotation value.
// Constructs whose legality the harnesses do not judge set `grey` (stated in the harness that assumes it away).

type refBin struct {
	b     []byte
	grey  bool // undefined symbol IDs, L=1 struct of length 0
	ts    bool // a timestamp with a body was met (outside the claim: stdlib time)
	nvals int  // values (not NOP pads) at any depth
	ntop  int  // top-level values
	maxSid uint64
}

func (p *refBin) varuint(pos, end int) (v uint64, np int, ok bool) {
	for i := pos; i < end; i++ {
		c := p.b[i]
		if v>>57 != 0 {
			return 0, 0, false
		}
		v = v<<7 | uint64(c&0x7F)
		if c&0x80 != 0 {
			return v, i + 1, true
		}
	}
	return 0, 0, false
}

func refUTF8(s []byte) bool {
	i := 0
	for i < len(s) {
		c := s[i]
		switch {
		case c < 0x80:
			i++
		case c >= 0xC2 && c <= 0xDF:
			if i+1 >= len(s) || s[i+1]&0xC0 != 0x80 {
				return false
			}
			i += 2
		case c >= 0xE0 && c <= 0xEF:
			if i+2 >= len(s) || s[i+1]&0xC0 != 0x80 || s[i+2]&0xC0 != 0x80 {
				return false
			}
			if c == 0xE0 && s[i+1] < 0xA0 {
				return false
			}
			if c == 0xED && s[i+1] >= 0xA0 {
				return false
			}
			i += 3
		case c >= 0xF0 && c <= 0xF4:
			if i+3 >= len(s) || s[i+1]&0xC0 != 0x80 || s[i+2]&0xC0 != 0x80 || s[i+3]&0xC0 != 0x80 {
				return false
			}
			if c == 0xF0 && s[i+1] < 0x90 {
				return false
			}
			if c == 0xF4 && s[i+1] >= 0x90 {
				return false
			}
			i += 4
		default:
			return false
		}
	}
	return true
}

func (p *refBin) sid(v uint64) {
	if v > p.maxSid {
		p.grey = true
	}
}

// value parses one value or NOP pad starting at pos inside [pos,end). isVal=false for a NOP pad.
func (p *refBin) value(pos, end int, wrapped bool, depth int) (np int, isVal bool, ok bool) {
	if pos >= end {
		return 0, false, false
	}
	tag := p.b[pos]
	t, l := tag>>4, tag&0x0F
	pos++
	if t == 15 {
		return 0, false, false
	}
	if t == 14 && (l < 3 || l == 15) {
		return 0, false, false
	}
	if l == 15 {
		return pos, true, true // typed null (null.null for t == 0)
	}
	if t == 1 {
		if l > 1 {
			return 0, false, false
		}
		return pos, true, true
	}
	length := uint64(l)
	if l == 14 || (t == 13 && l == 1) {
		v, n2, ok := p.varuint(pos, end)
		if !ok {
			return 0, false, false
		}
		if t == 13 && l == 1 && v == 0 {
			p.grey = true
		}
		length, pos = v, n2
	}
	if length > uint64(end-pos) {
		return 0, false, false
	}
	be := pos + int(length)
	body := p.b[pos:be]
	switch t {
	case 0:
		if wrapped {
			return 0, false, false
		}
		return be, false, true
	case 2:
	case 3:
		zero := true
		for _, c := range body {
			if c != 0 {
				zero = false
			}
		}
		if zero {
			return 0, false, false
		}
	case 4:
		if length != 0 && length != 4 && length != 8 {
			return 0, false, false
		}
	case 5:
		if length > 0 {
			done := false
			for _, c := range body {
				if c&0x80 != 0 {
					done = true
					break
				}
			}
			if !done {
				return 0, false, false
			}
		}
	case 6:
		p.ts = true
	case 7:
		if length > 8 {
			p.grey = true
		}
		v, _ := refUint(body)
		p.sid(v)
	case 8:
		if !refUTF8(body) {
			return 0, false, false
		}
	case 9, 10:
	case 11, 12:
		if depth > 6 || !p.seq(pos, be, false, depth+1) {
			return 0, false, false
		}
	case 13:
		if depth > 6 || !p.seq(pos, be, true, depth+1) {
			return 0, false, false
		}
	case 14:
		if wrapped {
			return 0, false, false
		}
		al, q, ok := p.varuint(pos, be)
		if !ok || al == 0 || al > uint64(be-q) {
			return 0, false, false
		}
		ae := q + int(al)
		for q < ae {
			v, q2, ok := p.varuint(q, ae)
			if !ok {
				return 0, false, false
			}
			p.sid(v)
			q = q2
		}
		vp, isv, ok := p.value(ae, be, true, depth)
		if !ok || !isv || vp != be {
			return 0, false, false
		}
		return be, true, true
	}
	return be, true, true
}

func (p *refBin) seq(pos, end int, isStruct bool, depth int) bool {
	for pos < end {
		if isStruct {
			v, q, ok := p.varuint(pos, end)
			if !ok {
				return false
			}
			pos = q
			np, isv, ok := p.value(pos, end, false, depth)
			if !ok {
				return false
			}
			if isv {
				p.sid(v)
				p.nvals++
			}
			pos = np
			continue
		}
		np, isv, ok := p.value(pos, end, false, depth)
		if !ok {
			return false
		}
		if isv {
			p.nvals++
			if depth == 0 {
				p.ntop++
			}
		}
		pos = np
	}
	return true
}

// refBinValid validates the bytes that follow a version marker; symbol IDs above maxSid are grey.
func refBinValid(b []byte, maxSid uint64) (ok bool, p *refBin) {
	p = &refBin{b: b, maxSid: maxSid}
	ok = p.seq(0, len(b), false, 0)
	return
}
