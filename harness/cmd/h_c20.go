package main

// C20 (partial): the in-process core of `ion-go process`. processor.process is driven with a real Reader over a
// document with symbolic bytes and a real text / pretty / binary Writer; the error report's encoder is environment
// (reflection) and is stubbed. Claims: process never panics; for a document the Reader accepts (a plain full traversal
// succeeds) it returns nil and the output, read back, denotes the same values incl. typed nulls, annotations, field
// names and nesting; for a document the Reader rejects it returns an error (an error-report entry is appended).
// The event writer is driven directly: no call sequence panics, and depth / IsInStruct follow the container stack.
// Outside: the built binary (arguments, files, stdin, exit status), the serialisation of events and error-report entries
// (ion.Encoder, reflection; the events themselves are checked in h_c20ev.go).

import (
	"github.com/amzn/ion-go/ion"
)

type cSink struct{ buf []byte }

func (s *cSink) Write(p []byte) (int, error) {
	s.buf = append(s.buf, p...)
	return len(p), nil
}

// cSummary folds a full traversal into a list of words (type, nullness, depth, annotations, field name, payload).
func cSummary(r ion.Reader, depth int, out *[]uint64) bool {
	for r.Next() {
		k := uint64(r.Type()) | uint64(depth)<<8
		if r.IsNull() {
			k |= 1 << 16
		}
		fn, err := r.FieldName()
		if err != nil {
			return false
		}
		if fn != nil {
			k |= 1 << 17
			if fn.Text != nil {
				k ^= cHash(*fn.Text) << 32
			} else {
				k ^= uint64(fn.LocalSID) << 40
			}
		}
		as, err := r.Annotations()
		if err != nil {
			return false
		}
		k |= uint64(len(as)) << 20
		for _, a := range as {
			if a.Text != nil {
				k ^= cHash(*a.Text) << 24
			}
		}
		if !r.IsNull() {
			switch r.Type() {
			case ion.BoolType:
				v, err := r.BoolValue()
				if err != nil {
					return false
				}
				if *v {
					k |= 1 << 18
				}
			case ion.IntType:
				sz, err := r.IntSize()
				if err != nil {
					return false
				}
				if sz == ion.BigInt {
					v, err := r.BigIntValue()
					if err != nil {
						return false
					}
					if v.IsInt64() {
						k ^= uint64(v.Int64()) << 28 // the same integer may be held as int64 or as big.Int (e.g. -2^63)
					} else {
						k ^= uint64(v.Sign()+2)<<44 ^ uint64(v.BitLen())<<48
					}
				} else {
					v, err := r.Int64Value()
					if err != nil {
						return false
					}
					k ^= uint64(*v) << 28
				}
			case ion.StringType:
				v, err := r.StringValue()
				if err != nil {
					return false
				}
				k ^= cHash(*v) << 28
			case ion.SymbolType:
				v, err := r.SymbolValue()
				if err != nil {
					return false
				}
				if v.Text != nil {
					k ^= cHash(*v.Text) << 28
				} else {
					k ^= uint64(v.LocalSID) << 36
				}
			case ion.ClobType, ion.BlobType:
				v, err := r.ByteValue()
				if err != nil {
					return false
				}
				k ^= cHash(string(v)) << 28
			case ion.FloatType:
				if _, err := r.FloatValue(); err != nil {
					return false
				}
			case ion.DecimalType:
				if _, err := r.DecimalValue(); err != nil {
					return false
				}
			case ion.TimestampType:
				if _, err := r.TimestampValue(); err != nil {
					return false
				}
			}
		}
		*out = append(*out, k)
		if !r.IsNull() && (r.Type() == ion.ListType || r.Type() == ion.SexpType || r.Type() == ion.StructType) {
			if r.StepIn() != nil {
				return false
			}
			if !cSummary(r, depth+1, out) {
				return false
			}
			if r.StepOut() != nil {
				return false
			}
		}
	}
	return r.Err() == nil
}

func cHash(s string) uint64 {
	h := uint64(len(s))
	for i := 0; i < len(s); i++ {
		h = h*31 + uint64(s[i])
	}
	return h & 0xFFFF
}

func cTLV(code byte, body ...byte) []byte {
	out := []byte{code | byte(len(body))}
	return append(out, body...)
}

func cCat(parts ...[]byte) []byte {
	var out []byte
	for _, p := range parts {
		out = append(out, p...)
	}
	return out
}

func cDoc() []byte {
	n := vparam("n", 1)
	b := vnondetBytes(n)
	bvm := []byte{0xE0, 0x01, 0x00, 0xEA}
	switch vparam("kind", 0) {
	case 0xB:
		return cCat(bvm, cTLV(0xB0, b...), []byte{0x20})
	case 0xD:
		return cCat(bvm, cTLV(0xD0, cCat([]byte{0x84}, b)...), []byte{0x20})
	case 0xE:
		return cCat(bvm, cTLV(0xE0, cCat([]byte{0x81, 0x84}, b)...), []byte{0x20})
	case 1: // text
		return b
	case 2: // an int of either sign whose magnitude needs 9 bytes (first byte symbolic)
		sign := byte(0x20)
		if vnondetBool() {
			sign = 0x30
		}
		vassume(b[0] != 0)
		return cCat(bvm, []byte{sign | 9, b[0], 0, 0, 0, 0, 0, 0, 0, 1})
	case 4: // integers around the int64 / uint64 limits, either sign (concrete magnitudes, symbolic choice)
		sign := byte(0x20)
		if vnondetBool() {
			sign = 0x30
		}
		mags := [][]byte{
			{0x80, 0, 0, 0, 0, 0, 0, 0},
			{0x80, 0, 0, 0, 0, 0, 0, 1},
			{0xFF, 0xFF, 0xFF, 0xFF, 0xFF, 0xFF, 0xFF, 0xFF},
			{0x01, 0, 0, 0, 0, 0, 0, 0, 0},
			{0x7F, 0xFF, 0xFF, 0xFF, 0xFF, 0xFF, 0xFF, 0xFF},
		}
		m := mags[vnondetInt(0, len(mags)-1)]
		return cCat(bvm, []byte{sign | byte(len(m))}, m, []byte{0x20})
	case 3: // an int of either sign with an 8-byte magnitude (>= 2^56; top byte symbolic, incl. >= 2^63)
		sign := byte(0x20)
		if vnondetBool() {
			sign = 0x30
		}
		vassume(b[0] != 0)
		return cCat(bvm, []byte{sign | 8, b[0], 0, 0, 0, 0, 0, 0, 2})
	}
	return cCat(bvm, b)
}

func H_C20_process() {
	doc := cDoc()
	if vparam("kind", 0) == 1 {
		vassume(len(doc) == 0 || doc[0] != 0xE0)
	}
	// what the document holds
	var want []uint64
	valid := cSummary(ion.NewReaderBytes(doc), 0, &want)
	out := &cSink{}
	var w ion.Writer
	switch vparam("fmt", 0) {
	case 0:
		w = ion.NewTextWriter(out)
	case 1:
		w = ion.NewTextWriterOpts(out, ion.TextWriterPretty)
	default:
		w = ion.NewBinaryWriter(out)
	}
	p := &processor{out: w, err: NewErrorReport(&cSink{})}
	err := p.process(ion.NewReaderBytes(doc))
	if valid {
		vassert(err == nil, "valid input is transcoded without error")
		vassert(w.Finish() == nil, "Finish succeeds")
		var got []uint64
		okr := cSummary(ion.NewReaderBytes(out.buf), 0, &got)
		vassert(okr, "the output is read back without error")
		vassert(len(got) == len(want), "the output holds the same number of values")
		for i := range want {
			vassert(got[i] == want[i], "the output denotes the same values")
		}
		vcover("valid")
	} else {
		vassert(err != nil, "invalid input is reported as an error")
		vcover("invalid")
	}
	vobserve("n", uint64(len(want)))
	vcover("end")
}

// H_C20_events: the event writer under every two-call sequence of container / value / annotation calls + Finish.
func H_C20_events() {
	w := NewEventWriter(&cSink{}).(*eventwriter)
	depth := 0
	var stack []bool
	a := "a"
	for i := 0; i < vparam("L", 3); i++ {
		switch vnondetInt(0, 9) {
		case 0:
			w.WriteInt(1)
		case 1:
			w.WriteNull()
		case 2:
			w.WriteNullType(ion.BoolType)
		case 3:
			w.BeginList()
			depth++
			stack = append(stack, false)
		case 4:
			w.BeginStruct()
			depth++
			stack = append(stack, true)
		case 5:
			w.BeginSexp()
			depth++
			stack = append(stack, false)
		case 6:
			if depth == 0 {
				vassume(false)
			}
			if stack[len(stack)-1] {
				w.EndStruct()
			} else if vnondetBool() {
				w.EndList()
			} else {
				w.EndSexp()
			}
			depth--
			stack = stack[:len(stack)-1]
		case 7:
			w.FieldName(ion.SymbolToken{Text: &a, LocalSID: ion.SymbolIDUnknown})
		case 8:
			w.Annotation(ion.SymbolToken{Text: &a, LocalSID: ion.SymbolIDUnknown})
		default:
			w.WriteSymbol(ion.SymbolToken{Text: &a, LocalSID: ion.SymbolIDUnknown})
		}
		vassert(w.depth == depth, "event depth follows the container stack")
		vassert(w.IsInStruct() == (depth > 0 && stack[len(stack)-1]), "IsInStruct follows the container stack")
	}
	w.Finish()
	vcover("end")
}
