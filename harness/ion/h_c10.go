package ion

// C10: symbols in a stream resolve against the symbol table in force at that point.
//
// Streams of the shape  BVM  LST_A  $s0  LST_B  $s1  [BVM]  $s2  are built in binary and in text, where LST_A is a fixed
// local symbol table (symbols ["p","q"]; with aimp=1: an import of t1 v1 and no local symbols), LST_B varies over: replace / append (imports:$ion_symbol_table), 0-1 local
// symbols (a string or a non-string gap), 0-1 import {name, version, max_id} with name from {t1, t2, t3, zz (not in the
// catalog)}, version 1..3, max_id absent or 0/2/4; s0, s1, s2 are symbolic symbol IDs. The catalog holds t1 v1
// [a,b,c], t1 v2 [a,b,c,d,e], t2 v1 [x,y], t3 v2 [m,n] (no v1). The independent decoder refBinDecode (same catalog, same rules: exact
// name+version, else latest version, else placeholder slots; no usable max_id and no exact match = error) says what
// each symbol denotes; the real binary Reader and the real text Reader must agree, table structs must never surface
// as values, and an import that the rules reject must end in an error.

type vC10LST struct {
	appendMode bool
	local      int // 0 none, 1 string "a", 2 gap (null)
	imp        int // 0 none, else 1+name(0..2)
	version    int
	maxID      int // -1 absent
	extraAnn   bool // a leading annotation in front of $ion_symbol_table: then the struct is ordinary data
}

var vC10Names = []string{"t1", "t2", "t3", "zz"}

func vC10Pick() vC10LST {
	var l vC10LST
	l.appendMode = vnondetBool()
	l.local = vnondetInt(0, 2)
	l.imp = vnondetInt(0, 4)
	l.maxID = -1
	if l.imp > 0 {
		l.version = vnondetInt(1, 3)
		l.maxID = []int{-1, 0, 2, 4}[vnondetInt(0, 3)]
	}
	return l
}

func vStr(s string) []byte { return vTLV(0x80, []byte(s)...) }

func (l vC10LST) binary() []byte {
	var body []byte
	if l.appendMode {
		body = vCat(body, []byte{0x86, 0x71, 0x03})
	} else if l.imp > 0 {
		imp := vCat([]byte{0x84}, vStr(vC10Names[l.imp-1]), []byte{0x85, 0x21, byte(l.version)})
		if l.maxID >= 0 {
			if l.maxID == 0 {
				imp = vCat(imp, []byte{0x88, 0x20})
			} else {
				imp = vCat(imp, []byte{0x88, 0x21, byte(l.maxID)})
			}
		}
		body = vCat(body, []byte{0x86}, vTLV(0xB0, vTLV(0xD0, imp...)...))
	}
	switch l.local {
	case 1:
		body = vCat(body, []byte{0x87}, vTLV(0xB0, vStr("a")...))
	case 2:
		body = vCat(body, []byte{0x87}, vTLV(0xB0, 0x0F))
	}
	if l.extraAnn {
		return vTLV(0xE0, vCat([]byte{0x82, 0x84, 0x83}, vTLV(0xD0, body...))...)
	}
	return vTLV(0xE0, vCat([]byte{0x81, 0x83}, vTLV(0xD0, body...))...)
}

func vItoa(n int) string {
	if n < 10 {
		return string([]byte{'0' + byte(n)})
	}
	return string([]byte{'0' + byte(n/10), '0' + byte(n%10)})
}

func (l vC10LST) text() string {
	s := "$ion_symbol_table::{"
	if l.extraAnn {
		s = "name::$ion_symbol_table::{"
	}
	if l.appendMode {
		s += "imports:$ion_symbol_table,"
	} else if l.imp > 0 {
		s += "imports:[{name:\"" + vC10Names[l.imp-1] + "\",version:" + vItoa(l.version)
		if l.maxID >= 0 {
			s += ",max_id:" + vItoa(l.maxID)
		}
		s += "}],"
	}
	switch l.local {
	case 1:
		s += "symbols:[\"a\"]"
	case 2:
		s += "symbols:[null]"
	}
	return s + "} "
}

var vC10T1v1 = []string{"a", "b", "c"}
var vC10T1v2 = []string{"a", "b", "c", "d", "e"}
var vC10T2v1 = []string{"x", "y"}
var vC10T3v2 = []string{"m", "n"} // only a newer version of t3 is in the catalog

func H_C10_stream() {
	text := vparam("text", 0) == 1
	l := vC10Pick()
	if l.appendMode {
		vassume(l.imp == 0)
	}
	if vparam("extra", 0) == 1 {
		l.extraAnn = true
	}
	midBVM := vnondetBool()
	// one of the three symbol IDs is symbolic (param which), the other two are fixed, so that the case splits on
	// the IDs add up instead of multiplying
	s0, s1, s2 := uint8(10), uint8(11), uint8(4)
	switch vparam("which", 1) {
	case 0:
		s0 = vnondetU8()
		vassume(s0 <= 13)
	case 1:
		s1 = vnondetU8()
		vassume(s1 <= 20)
	default:
		s2 = vnondetU8()
		vassume(s2 <= 20)
	}
	lstA := vTLV(0xE0, vCat([]byte{0x81, 0x83}, vTLV(0xD0, vCat([]byte{0x87}, vTLV(0xB0, vCat(vStr("p"), vStr("q"))...))...))...)
	lstAText := "$ion_symbol_table::{symbols:[\"p\",\"q\"]} "
	if vparam("aimp", 0) == 1 {
		// LST_A imports t1 v1 (max_id 3) and declares no local symbols: an appending LST_B must carry the import over
		imp := vCat([]byte{0x84}, vStr("t1"), []byte{0x85, 0x21, 1, 0x88, 0x21, 3})
		lstA = vTLV(0xE0, vCat([]byte{0x81, 0x83}, vTLV(0xD0, vCat([]byte{0x86}, vTLV(0xB0, vTLV(0xD0, imp...)...))...))...)
		lstAText = "$ion_symbol_table::{imports:[{name:\"t1\",version:1,max_id:3}]} "
	}
	bin := vCat(vBVM, lstA, []byte{0x71, s0}, l.binary(), []byte{0x71, s1})
	if midBVM {
		bin = vCat(bin, vBVM)
	}
	bin = vCat(bin, []byte{0x71, s2})
	cat := []rShared{{"t1", 1, vC10T1v1}, {"t1", 2, vC10T1v2}, {"t2", 1, vC10T2v1}, {"t3", 2, vC10T3v2}}
	d, ok := refBinDecode(bin, cat)
	vassume(!d.unsure)
	us := d.user()

	rcat := NewCatalog(NewSharedSymbolTable("t1", 1, vC10T1v1), NewSharedSymbolTable("t1", 2, vC10T1v2), NewSharedSymbolTable("t2", 1, vC10T2v1), NewSharedSymbolTable("t3", 2, vC10T3v2))
	var r Reader
	if text {
		doc := "$ion_1_0 " + lstAText + "$" + vSidText(s0) + " " + l.text() + "$" + vSidText(s1) + " "
		if midBVM {
			doc += "$ion_1_0 "
		}
		doc += "$" + vSidText(s2)
		r = NewReaderCat(&vChunkSrc{data: []byte(doc), failAt: -1}, rcat)
	} else {
		r = NewReaderCat(&vChunkSrc{data: bin, failAt: -1}, rcat)
	}
	var evs []vEv
	stepErr := vTraverse(r, 0, 4, false, &evs)
	if !ok || d.importErr {
		vassert(r.Err() != nil || stepErr, "a symbol table the rules reject ends in an error")
		vcover("rejected")
		vcover("end")
		return
	}
	if d.undef {
		// a symbol ID above the table in force: rejected, or at least never given text
		vcover("undefined")
		if r.Err() == nil && !stepErr {
			vassert(len(evs) == len(us), "symbol-table structs never surface as values")
			for i := range us {
				if us[i].sym.undef {
					vassert(evs[i].accErr || !evs[i].sym.hasText, "an ID the table in force does not define gets no text")
				}
			}
		}
		vcover("end")
		return
	}
	vassert(r.Err() == nil && !stepErr, "a well-formed stream is read without error")
	vassert(len(evs) == len(us), "symbol-table structs never surface as values; annotated ordinary structs do")
	for i := range us {
		if us[i].typ != SymbolType || us[i].depth != 0 {
			// (only with extra=1) the struct that merely carries $ion_symbol_table as a later annotation, and its children
			vassert(evs[i].typ == us[i].typ && evs[i].depth == us[i].depth && evs[i].null == us[i].null, "a struct whose first annotation is not $ion_symbol_table is ordinary data")
			vcover("data")
			continue
		}
		vassert(evs[i].typ == SymbolType && !evs[i].null && !evs[i].accErr, "each user value is a symbol")
		if us[i].sym.known {
			vassert(evs[i].sym.hasText && evs[i].sym.text == us[i].sym.text, "the symbol resolves against the table in force at that point")
			vcover("text")
		} else {
			if vknown("KF_C10_gap_is_empty_text", l.local == 2 && evs[i].sym.hasText && evs[i].sym.text == "") {
				vassert(false, "a non-string entry of symbols is a slot without text, not the empty symbol")
			}
			vassert(!evs[i].sym.hasText, "a slot without text yields a symbol without text")
			vcover("notext")
		}
	}
	vobserve("n", uint64(len(evs)))
	vcover("end")
}

// vSidText renders a symbolic small number (0..20) as decimal digits.
func vSidText(s uint8) string {
	if s < 10 {
		return string([]byte{'0' + s})
	}
	return string([]byte{'0' + s/10, '0' + s%10})
}
