#!/usr/bin/env python3
# usage: manifest_add.py <ID> "<level text>"   — registers (or updates) a check for property ID and drops it from not_applicable
import json,sys
id,text=sys.argv[1],sys.argv[2]
m=json.load(open('/verif/MANIFEST.json'))
note=m['checks'][0]['level_note']
e={"property_id":id,"quick_cmd":f"./check {id} --tier quick","thorough_cmd":f"./check {id} --tier thorough","evidence_file":f"evidence/{id}.json",
   "replay_cmd_template":f"./check {id} --replay {{path}}","engine":"gosymex",
   "level_claimed":{"category":"model_checking","text":text,"design_ref":f"DESIGN.md §9 {id}"},"level_note":note,
   "technique":"solver-based bounded symbolic execution (SSA->SMT, z3)"}
m['checks']=[c for c in m['checks'] if c['property_id']!=id]+[e]
m['checks'].sort(key=lambda c:c['property_id'])
m['not_applicable']=[n for n in m['not_applicable'] if n['property_id']!=id]
for en in m['engines']:
    if id not in en['serves_properties']: en['serves_properties']=sorted(en['serves_properties']+[id])
json.dump(m,open('/verif/MANIFEST.json','w'),indent=1)
