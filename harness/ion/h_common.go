package ion

// Shared harness infrastructure: an event model of what a Reader shows, a full traversal that records it, and a
// "poke" that calls every accessor (right and wrong type) on the current value.

import "math/big"

type vSym struct {
	present bool
	hasText bool
	text    string
	sid     int64
	err     bool
}

type vEv struct {
	depth int
	typ   Type
	null  bool
	field vSym
	ann   []vSym
	annErr bool
	// scalar payload
	b     bool
	isBig bool
	i     int64
	big   *big.Int
	f     uint64
	dec   *Decimal
	ts    *Timestamp
	s     string
	bs    []byte
	sym   vSym
	accErr bool // the accessor of the value's own type returned an error
	after  uint64 // containers: what the Reader showed right after StepOut (vObserveState), +1<<63 when recorded
}

// vObserveState packs what a Reader shows between values (e.g. right after StepOut) into one word: type, nullness,
// presence of field name / annotations, and for every accessor whether it is refused. Refused calls must not change it.
func vObserveState(r Reader) uint64 {
	o := uint64(r.Type())
	bit := func(i uint, c bool) {
		if c {
			o |= 1 << i
		}
	}
	bit(8, r.IsNull())
	fn, ferr := r.FieldName()
	bit(9, fn != nil)
	bit(10, ferr != nil)
	as, aerr := r.Annotations()
	bit(11, len(as) > 0)
	bit(12, aerr != nil)
	_, e := r.BoolValue()
	bit(13, e != nil)
	_, e = r.IntSize()
	bit(14, e != nil)
	_, e = r.Int64Value()
	bit(15, e != nil)
	_, e = r.BigIntValue()
	bit(16, e != nil)
	_, e = r.FloatValue()
	bit(17, e != nil)
	_, e = r.DecimalValue()
	bit(18, e != nil)
	_, e = r.TimestampValue()
	bit(19, e != nil)
	_, e = r.StringValue()
	bit(20, e != nil)
	_, e = r.SymbolValue()
	bit(21, e != nil)
	_, e = r.ByteValue()
	bit(22, e != nil)
	bit(23, r.StepIn() != nil)
	return o | 1<<63
}

func vSymOf(t *SymbolToken, err error) vSym {
	if err != nil {
		return vSym{err: true}
	}
	if t == nil {
		return vSym{}
	}
	s := vSym{present: true, sid: t.LocalSID}
	if t.Text != nil {
		s.hasText = true
		s.text = *t.Text
	}
	return s
}

// vReadCurrent records the value the Reader is positioned on.
func vReadCurrent(r Reader, depth int) vEv {
	ev := vEv{depth: depth, typ: r.Type(), null: r.IsNull()}
	ev.field = vSymOf(r.FieldName())
	as, err := r.Annotations()
	if err != nil {
		ev.annErr = true
	}
	for i := range as {
		ev.ann = append(ev.ann, vSymOf(&as[i], nil))
	}
	if ev.null {
		return ev
	}
	switch ev.typ {
	case BoolType:
		v, err := r.BoolValue()
		if err != nil || v == nil {
			ev.accErr = true
		} else {
			ev.b = *v
		}
	case IntType:
		sz, err := r.IntSize()
		if err != nil {
			ev.accErr = true
		} else if sz == BigInt {
			v, err := r.BigIntValue()
			if err != nil || v == nil {
				ev.accErr = true
			} else {
				ev.isBig, ev.big = true, v
			}
		} else {
			v, err := r.Int64Value()
			if err != nil || v == nil {
				ev.accErr = true
			} else {
				ev.i = *v
			}
		}
	case FloatType:
		v, err := r.FloatValue()
		if err != nil || v == nil {
			ev.accErr = true
		} else {
			ev.f = vFloatBits(*v)
		}
	case DecimalType:
		v, err := r.DecimalValue()
		if err != nil || v == nil {
			ev.accErr = true
		} else {
			ev.dec = v
		}
	case TimestampType:
		v, err := r.TimestampValue()
		if err != nil || v == nil {
			ev.accErr = true
		} else {
			ev.ts = v
		}
	case SymbolType:
		v, err := r.SymbolValue()
		if err != nil || v == nil {
			ev.accErr = true
		} else {
			ev.sym = vSymOf(v, nil)
		}
	case StringType:
		v, err := r.StringValue()
		if err != nil || v == nil {
			ev.accErr = true
		} else {
			ev.s = *v
		}
	case ClobType, BlobType:
		v, err := r.ByteValue()
		if err != nil || v == nil {
			ev.accErr = true
		} else {
			ev.bs = v
		}
	}
	return ev
}

// vPoke calls every accessor on the current value, whatever its type; results are ignored (C06: none may panic).
func vPoke(r Reader) {
	r.Type()
	r.IsNull()
	r.FieldName()
	r.Annotations()
	r.BoolValue()
	r.IntSize()
	r.IntValue()
	r.Int64Value()
	r.BigIntValue()
	r.FloatValue()
	r.DecimalValue()
	r.TimestampValue()
	r.StringValue()
	r.SymbolValue()
	r.ByteValue()
	r.IsInStruct()
	r.SymbolTable()
	r.Err()
}

// vTraverse walks the whole stream, stepping into every container (up to maxDepth), and records every value.
// stepErr reports a failing StepIn/StepOut.
func vTraverse(r Reader, depth, maxDepth int, poke bool, out *[]vEv) (stepErr bool) {
	for r.Next() {
		if poke {
			vPoke(r)
		}
		ev := vReadCurrent(r, depth)
		*out = append(*out, ev)
		idx := len(*out) - 1
		if !ev.null && (ev.typ == ListType || ev.typ == SexpType || ev.typ == StructType) && depth < maxDepth {
			if err := r.StepIn(); err != nil {
				return true
			}
			if vTraverse(r, depth+1, maxDepth, poke, out) {
				return true
			}
			if err := r.StepOut(); err != nil {
				return true
			}
			(*out)[idx].after = vObserveState(r)
		}
	}
	return false
}

func vFloatBits(f float64) uint64 { return vf64bits(f) }

var vBVM = []byte{0xE0, 0x01, 0x00, 0xEA}

func vWithBVM(b []byte) []byte {
	out := make([]byte, 0, 4+len(b))
	out = append(out, vBVM...)
	return append(out, b...)
}

func H_probe_bin() {
	n := vparam("n", 1)
	b := vnondetBytes(n)
	r := NewReaderBytes(vWithBVM(b))
	var evs []vEv
	vTraverse(r, 0, 3, true, &evs)
	vobserve("nev", uint64(len(evs)))
	if r.Err() != nil {
		vcover("err")
	} else {
		vcover("ok")
	}
	vcover("end")
}
