package ion

import "bytes"

// C01 (binary mode) and C04 (binary mode): one value of a chosen shape with symbolic content is written through the
// real binary Writer, finished, and (C04) the bytes are validated by the specification-derived refBinValid, which
// shares no code with ion-go: version marker first, every declared length exactly filled, containers nest exactly,
// symbol IDs within the table the stream itself declares; (C01) the real Reader returns the value that was written.
// Shapes (param shape): 0 int64, 1 uint64, 2 bool, 3 string of k bytes, 4 blob/clob of k bytes, 5 typed null,
// 6 list[int], 7 struct{name:int} (system symbol field), 8 annotated int (system symbol), 9 symbol with new text,
// 10 sexp(list(int)) - content symbolic, k = param k.

func vWriteShape(w Writer, shape, k int, u uint64, bs []byte, t Type) bool {
	name := "name"
	switch shape {
	case 0:
		return w.WriteInt(int64(u)) == nil
	case 1:
		return w.WriteUint(u) == nil
	case 2:
		return w.WriteBool(u&1 == 1) == nil
	case 3:
		return w.WriteString(string(bs)) == nil
	case 4:
		if u&1 == 1 {
			return w.WriteClob(bs) == nil
		}
		return w.WriteBlob(bs) == nil
	case 5:
		return w.WriteNullType(t) == nil
	case 6:
		return w.BeginList() == nil && w.WriteInt(int64(u)) == nil && w.EndList() == nil
	case 7:
		return w.BeginStruct() == nil && w.FieldName(SymbolToken{Text: &name, LocalSID: SymbolIDUnknown}) == nil &&
			w.WriteInt(int64(u)) == nil && w.EndStruct() == nil
	case 8:
		return w.Annotation(SymbolToken{Text: &name, LocalSID: SymbolIDUnknown}) == nil && w.WriteInt(int64(u)) == nil
	case 9:
		return w.WriteSymbolFromString("abc") == nil
	case 10:
		return w.BeginSexp() == nil && w.BeginList() == nil && w.WriteInt(int64(u)) == nil && w.EndList() == nil && w.EndSexp() == nil
	}
	return false
}

func H_C01_bin() {
	shape := vparam("shape", 0)
	k := vparam("k", 2)
	u := vnondetU64()
	// bound: integers whose binary form needs math/big in the Reader (magnitude >= 2^63) are covered at the concrete
	// boundary values 2^63 (param uk=1, i.e. MinInt64 for the int64 shapes) and 2^64-1 (uk=2); symbolic values are below 2^63
	// in magnitude (the BV<->Int queries behind math/big are undecided within the timeout for symbolic magnitudes).
	switch vparam("uk", 0) {
	case 1:
		u = 1 << 63
	case 2:
		u = 1<<64 - 1
	default:
		if shape == 1 {
			vassume(u>>63 == 0)
		} else {
			vassume(u != 1<<63)
		}
	}
	var bs []byte
	if shape == 3 || shape == 4 {
		bs = vnondetBytes(k)
	}
	if shape == 3 {
		vassume(refUTF8(bs)) // strings are sequences of Unicode code points
	}
	t := NullType
	if shape == 5 {
		t = Type(vnondetInt(int(NullType), int(StructType)))
	}
	var out bytes.Buffer
	w := NewBinaryWriter(&out)
	vassert(vWriteShape(w, shape, k, u, bs, t), "every write succeeds")
	vassert(w.Finish() == nil, "Finish succeeds")
	enc := out.Bytes()

	// C04: independent validation of the emitted bytes
	vassert(len(enc) >= 4 && enc[0] == 0xE0 && enc[1] == 0x01 && enc[2] == 0x00 && enc[3] == 0xEA, "output starts with the version marker")
	maxSid := uint64(9)
	if shape == 9 {
		maxSid = 10 // the stream must declare exactly one local symbol before using $10
	}
	ok, p := refBinValid(enc[4:], maxSid)
	vassert(ok, "output is well-formed Ion binary under the independent validator")
	vassert(!p.grey, "every symbol ID used is defined by the stream")
	wantVals := 1
	switch shape {
	case 6, 7:
		wantVals = 2
	case 10:
		wantVals = 3
	case 9:
		wantVals = 4 // $ion_symbol_table::{symbols:["abc"]} and the symbol
	}
	vassert(p.nvals == wantVals, "output holds exactly the values written")

	// C01: the real Reader returns what was written
	r := NewReaderBytes(enc)
	var evs []vEv
	stepErr := vTraverse(r, 0, 8, false, &evs)
	vassert(!stepErr && r.Err() == nil, "written stream is read without error")
	want := 1
	if shape == 6 || shape == 7 {
		want = 2
	}
	if shape == 10 {
		want = 3
	}
	vassert(len(evs) == want, "the same number of values is read back")
	last := evs[len(evs)-1]
	vassert(!last.accErr, "the value's accessor succeeds")
	switch shape {
	case 0, 6, 7, 8, 10:
		if last.isBig { // the Reader may hold -2^63 as a big integer; the value is what must survive
			vassert(last.typ == IntType && !last.null && last.big.IsInt64() && last.big.Int64() == int64(u), "int64 survives")
			vcover("minint")
		} else {
			vassert(last.typ == IntType && !last.null && last.i == int64(u), "int64 survives")
		}
	case 1:
		if u>>63 == 0 {
			vassert(last.typ == IntType && !last.isBig && last.i == int64(u), "uint64 below 2^63 survives")
		} else {
			vassert(last.typ == IntType && last.isBig && last.big.IsUint64() && last.big.Uint64() == u, "uint64 from 2^63 survives as a big int")
			vcover("big")
		}
	case 2:
		vassert(last.typ == BoolType && !last.null && last.b == (u&1 == 1), "bool survives")
	case 3:
		vassert(last.typ == StringType && !last.null && last.s == string(bs), "string text survives")
	case 4:
		if u&1 == 1 {
			vassert(last.typ == ClobType, "clob type survives")
		} else {
			vassert(last.typ == BlobType, "blob type survives")
		}
		vassert(!last.null && vSameBytes(last.bs, bs), "lob bytes survive")
	case 5:
		vassert(last.null && last.typ == t, "typed null survives")
	case 9:
		vassert(last.typ == SymbolType && last.sym.hasText && last.sym.text == "abc", "symbol text survives")
	}
	switch shape {
	case 6:
		vassert(evs[0].typ == ListType && evs[1].depth == 1, "child stays inside its list")
	case 7:
		vassert(evs[0].typ == StructType && evs[1].depth == 1 && evs[1].field.hasText && evs[1].field.text == "name", "field name survives by text")
	case 8:
		vassert(len(last.ann) == 1 && last.ann[0].hasText && last.ann[0].text == "name", "annotation survives by text")
	case 10:
		vassert(evs[0].typ == SexpType && evs[1].typ == ListType && evs[1].depth == 1 && evs[2].depth == 2, "nesting survives")
	}
	vobserve("len", uint64(len(enc)))
	vcover("end")
}
