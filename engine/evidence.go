package main

import (
	"encoding/json"
	"fmt"
	"os"
	"path/filepath"
	"sort"
	"strings"
)

func matchFinding(f *Finding, prop string, v *Violation) bool {
	if f.Status != "open" || f.Property != prop {
		return false
	}
	if f.Match.Harness != "" && !strings.HasPrefix(v.Harness, f.Match.Harness) {
		return false
	}
	if f.Match.KF != "" {
		in := false
		for _, k := range v.KF {
			if k == f.Match.KF {
				in = true
			}
		}
		if !in {
			return false
		}
		if f.Match.Kind != "" && v.Kind != f.Match.Kind {
			return false
		}
		return true
	}
	if f.Match.Func != "" {
		if v.Kind != f.Match.Kind || v.Func != f.Match.Func {
			return false
		}
		if f.Match.MsgHas != "" && !strings.Contains(v.Msg, f.Match.MsgHas) {
			return false
		}
		return true
	}
	return false
}

func sameObs(a, b []string) (bool, string) {
	n := len(a)
	if len(b) < n {
		n = len(b)
	}
	for i := 0; i < n; i++ {
		if a[i] != b[i] {
			return false, fmt.Sprintf("obs[%d]: engine %s native %s", i, a[i], b[i])
		}
	}
	if len(a) != len(b) {
		return false, fmt.Sprintf("obs length: engine %d native %d", len(a), len(b))
	}
	return true, ""
}

func writeEvidenceError(prop, tier string, seed int64, ps *PropSpec, msg string, wall float64, skip bool) {
	if skip {
		return
	}
	ev := map[string]interface{}{
		"property_id": prop, "tier": tier, "seed": seed, "level": "other",
		"coverage": map[string]interface{}{"explanation": "the check could not run: " + msg, "evaluations": 0},
		"wall_s":   wall, "violations": 0,
	}
	js, _ := json.MarshalIndent(ev, "", " ")
	os.MkdirAll(filepath.Join(verifDir, "evidence"), 0o755)
	os.WriteFile(filepath.Join(verifDir, "evidence", prop+".json"), js, 0o644)
}

func finish(prop, tier string, seed int64, ps *PropSpec, l *loaded, results []*HarnessResult, kf *Findings, wall float64, noReplay, noEvidence bool) int {
	code := 0
	var nb *nativeBin
	need := false
	for _, r := range results {
		if r.Sh != nil && (len(r.Sh.violations) > 0 || len(r.Sh.samples) > 0) {
			need = true
		}
	}
	if need && !noReplay {
		nb = buildNative(l)
		if nb.err != nil {
			fmt.Printf("ERROR native-build: %v\n%s\n", nb.err, nb.log)
			writeEvidenceError(prop, tier, seed, ps, "native build of the harness failed", wall, noEvidence)
			return 2
		}
	}
	replayRoot := filepath.Join(verifDir, "replays", prop)
	if v := os.Getenv("VERIF_REPLAYS"); v != "" { // framework self-tests against seeded changes keep their replays elsewhere
		replayRoot = filepath.Join(v, prop)
	}
	os.RemoveAll(replayRoot)
	nViol, nKnown, nMismatch, nValidated := 0, 0, 0, 0
	knownPrinted := map[string]bool{}
	var errorsOut []string
	var sampleOut []interface{}
	type hsum map[string]interface{}
	var hsums []hsum
	totStates, totTrans, totQueries, totUnk, totInc := 0, 0, 0, 0, 0
	totSolver := 0.0
	funcs := map[string]int{}
	stubs := map[string]bool{}
	var kfSeen []string
	incomplete := false
	for _, r := range results {
		sh := r.Sh
		if sh == nil {
			errorsOut = append(errorsOut, "harness missing: "+r.Spec.Name)
			continue
		}
		// 1. counterexamples: replay before reporting
		for i := range sh.violations {
			v := &sh.violations[i]
			if noReplay {
				fmt.Printf("UNREPLAYED %s %s\n", r.Spec.Name, describe(*v))
				continue
			}
			dir := filepath.Join(replayRoot, fmt.Sprintf("%s-%d", r.Spec.Name, i))
			in := &replayIn{Harness: r.Spec.fn(), Tape: v.Tape, Params: r.Cfg, Timeout: 20, Property: prop, Kind: v.Kind, Where: v.Where, Msg: v.Msg, Func: v.Func, Pkg: ps.Pkg, Expect: v.Obs}
			out, err := runNative(nb, in, dir)
			if err != nil {
				errorsOut = append(errorsOut, "replay: "+err.Error())
				continue
			}
			v.ReplayDir = dir
			v.NativeOut = fmt.Sprintf("%s %s %s %s", out.Outcome, out.Label, out.Msg, out.Func)
			if v.Kind == "unsupported" {
				continue
			}
			if !reproduces(v, out, float64(64)) {
				nMismatch++
				fmt.Printf("ENGINE-MISMATCH harness=%s derived [%s] %s %s but native run gave: %s (replay=%s)\n", r.Spec.Name, v.Kind, v.Where, v.Msg, v.NativeOut, dir)
				continue
			}
			v.Reproduced = true
			os.WriteFile(filepath.Join(dir, "README"), []byte(fmt.Sprintf("property %s, harness %s\n[%s] %s: %s\nnative outcome: %s\nre-run: cd /verif && ./check %s --replay %s\n", prop, r.Spec.Name, v.Kind, v.Where, v.Msg, v.NativeOut, prop, dir)), 0o644)
			known := ""
			for fi := range kf.Findings {
				if matchFinding(&kf.Findings[fi], prop, v) {
					known = kf.Findings[fi].ID
					if !knownPrinted[known] {
						knownPrinted[known] = true
						fmt.Printf("KNOWN-FINDING: property=%s %s: %s (replay=%s)\n", prop, known, kf.Findings[fi].What, dir)
					}
					break
				}
			}
			if known != "" {
				nKnown++
				continue
			}
			nViol++
			fmt.Printf("VIOLATION property=%s replay=%s\n", prop, dir)
			fmt.Printf("   harness=%s [%s] %s: %s func=%s kf-regions=%v native: %s\n", r.Spec.Name, v.Kind, v.Where, v.Msg, v.Func, v.KF, v.NativeOut)
			code = 1
		}
		// 2. translator validation on sampled feasible paths
		for i, s := range sh.samples {
			if noReplay {
				break
			}
			dir := filepath.Join(l.tmpDir, "samples", fmt.Sprintf("%s-%d", r.Spec.Name, i))
			in := &replayIn{Harness: r.Spec.fn(), Tape: s.Tape, Params: r.Cfg, Timeout: 20, Pkg: ps.Pkg, Expect: s.Obs}
			out, err := runNative(nb, in, dir)
			if err != nil {
				errorsOut = append(errorsOut, "validation: "+err.Error())
				continue
			}
			if out.Outcome != "ok" {
				r.Mismatch = append(r.Mismatch, fmt.Sprintf("sample %d: engine path completes, native outcome %s %s %s", i, out.Outcome, out.Label, out.Msg))
				continue
			}
			if ok, why := sameObs(s.Obs, out.Obs); !ok {
				r.Mismatch = append(r.Mismatch, fmt.Sprintf("sample %d: %s", i, why))
				continue
			}
			r.Validated++
			os.RemoveAll(dir)
		}
		nValidated += r.Validated
		for _, m := range r.Mismatch {
			// a mismatch inside a known-finding region or on a violating path is expected to differ only by the
			// violation itself; anything else is an encoder error
			fmt.Printf("TRANSLATOR-MISMATCH harness=%s %s\n", r.Spec.Name, m)
			nMismatch++
		}
		if len(r.MissingCov) > 0 {
			errorsOut = append(errorsOut, fmt.Sprintf("vacuity: harness %s never reached %v", r.Spec.Name, r.MissingCov))
		}
		for _, u := range r.BadUnsup {
			fmt.Printf("INCONCLUSIVE harness=%s unsupported construct reached: %s\n", r.Spec.Name, u)
		}
		if r.Incomplete {
			incomplete = true
			fmt.Printf("INCONCLUSIVE harness=%s exploration stopped at the time budget (%d paths done)\n", r.Spec.Name, sh.Paths)
		}
		if sh.Unknown+sh.Inconclusive > 0 {
			fmt.Printf("INCONCLUSIVE harness=%s solver unknown on %d feasibility and %d property queries\n", r.Spec.Name, sh.Unknown, sh.Inconclusive)
		}
		totStates += sh.Paths
		totTrans += sh.Decisions
		totQueries += r.Queries
		totUnk += sh.Unknown
		totInc += sh.Inconclusive
		totSolver += r.SolverTime
		for f, n := range r.Funcs {
			funcs[f] += n
		}
		for a := range sh.assumptions {
			stubs[a] = true
		}
		for k, n := range sh.kfSeen {
			kfSeen = append(kfSeen, fmt.Sprintf("%s:%d", k, n))
		}
		var cv []string
		for k, v := range sh.covered {
			cv = append(cv, fmt.Sprintf("%s:%d", k, v))
		}
		sort.Strings(cv)
		hs := hsum{"harness": r.Spec.Name, "paths": sh.Paths, "pruned_by_assume": sh.Pruned, "decisions": sh.Decisions, "ssa_steps": sh.Steps,
			"queries": r.Queries, "sat": r.Sat, "unsat": r.Unsat, "unknown": r.Unk, "solver_time_s": round2(r.SolverTime), "wall_s": round2(r.Wall),
			"cfg": r.Cfg, "covered": cv, "violations_found": len(sh.violations), "validated_samples": r.Validated, "incomplete": r.Incomplete,
			"unsupported": r.BadUnsup, "note": r.Spec.Note}
		hsums = append(hsums, hs)
		for i, s := range sh.samples {
			if i >= 2 {
				break
			}
			var tp []string
			for _, t := range s.Tape {
				tp = append(tp, t.Val)
			}
			sampleOut = append(sampleOut, map[string]interface{}{"harness": r.Spec.Name, "decisions": s.Events, "model_tape": tp, "observations": s.Obs})
		}
	}
	if nMismatch > 0 {
		errorsOut = append(errorsOut, fmt.Sprintf("%d engine/native mismatches (encoder or stub error; nothing is reported as a violation from them)", nMismatch))
	}
	for _, e := range errorsOut {
		fmt.Println("ERROR", e)
	}
	if code == 0 && len(errorsOut) > 0 {
		code = 2
	}
	if !noEvidence {
		var fl []string
		for f, n := range funcs {
			fl = append(fl, fmt.Sprintf("%s x%d", f, n))
		}
		sort.Strings(fl)
		var st []string
		for s := range stubs {
			st = append(st, s)
		}
		sort.Strings(st)
		sort.Strings(kfSeen)
		if len(sampleOut) == 0 {
			sampleOut = append(sampleOut, "no completed path was sampled")
		}
		if totStates == 0 {
			totStates = 0
		}
		cov := map[string]interface{}{
			"states": totStates, "transitions": totTrans, "traces_validated_against_impl": nValidated, "samples": sampleOut,
			"evaluations": totStates, "distinct_nontrivial": totStates,
			"rule":                          "one evaluation = one feasible path of a harness through the real SSA (distinct decision lists; each stands for all inputs satisfying its path condition); all are non-trivial: each ends in the harness assertions being discharged by the solver",
			"exhaustive":                    !incomplete && totUnk == 0 && totInc == 0,
			"functions_encoded":             fl,
			"harnesses":                     hsums,
			"queries":                       map[string]interface{}{"total": totQueries, "unknown_feasibility": totUnk, "unknown_property": totInc},
			"solver":                        "z3 4.8.12 (z3 -in, no set-logic)",
			"solver_time_s":                 round2(totSolver),
			"stubs_used":                    st,
			"outside_claim":                 ps.Outside,
			"known_finding_regions_entered": kfSeen,
			"known_findings_printed":        len(knownPrinted),
			"violations_reproduced":         nViol,
			"engine_mismatches":             nMismatch,
			"errors":                        errorsOut,
			"explanation":                   "bounded symbolic execution of the real code: encoding regenerated from /repo's working tree on this run via go/packages+go/ssa; inputs are solver variables; every branch, panic condition and assertion is decided by z3 over the path condition",
		}
		level := ps.Level
		if level == "" {
			level = "model_checking"
		}
		if totStates == 0 || totTrans == 0 {
			level = "other"
		}
		ev := map[string]interface{}{
			"property_id": prop, "tier": tier, "seed": seed, "level": level, "coverage": cov,
			"assumptions": append(append([]string{}, ps.Assumptions...), st...), "wall_s": round2(wall), "violations": nViol,
		}
		js, _ := json.MarshalIndent(ev, "", " ")
		os.MkdirAll(filepath.Join(verifDir, "evidence"), 0o755)
		os.WriteFile(filepath.Join(verifDir, "evidence", prop+".json"), js, 0o644)
	}
	fmt.Printf("SUMMARY property=%s tier=%s paths=%d decisions=%d queries=%d solver=%.1fs validated=%d violations=%d known=%d exit=%d wall=%.1fs\n",
		prop, tier, totStates, totTrans, totQueries, totSolver, nValidated, nViol, nKnown, code, wall)
	return code
}

func round2(f float64) float64 { return float64(int(f*100+0.5)) / 100 }
