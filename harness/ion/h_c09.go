package ion

// C09: symbol tables assign and resolve IDs as the Ion rules prescribe.
//
// The ID space is modelled as arithmetic (refSymtab below, written from the specification's symbol-table section):
// system symbols 1..9, then each import exactly max_id slots in declaration order (a shared table shorter than its
// declared max_id is padded with undefined text, a longer one is cut), then the local symbols. A local symbol table is
// built by the real code from nimp imports - each either a placeholder of arbitrary (full 64-bit symbolic) size or one
// of three real shared tables adjusted to an arbitrary symbolic max_id - and up to nloc local symbols drawn from a
// pool. Then, for a full-width symbolic id, FindByID must agree with the model; for every pool text FindByName must
// return the lowest ID carrying it and FindByID of that ID the text; MaxID is the sum of all slots;
// NewSymbolTokenBySID errs exactly outside 0..MaxID. Assumption: the sum of all slots does not overflow 64 bits.

type rSeg struct {
	size  uint64   // number of IDs the segment occupies (may be symbolic)
	texts []string // defined texts of the first len(texts) slots; "" marks a slot without text
	def   []bool   // def[i]: slot i has text
}

type rSymtab struct {
	segs []rSeg
}

func (t *rSymtab) maxID() uint64 {
	m := uint64(0)
	for _, s := range t.segs {
		m += s.size
	}
	return m
}

// byID returns the text of id, if it has one.
func (t *rSymtab) byID(id uint64) (string, bool) {
	if id == 0 {
		return "", false
	}
	off := uint64(0)
	for _, s := range t.segs {
		if id <= off+s.size {
			i := id - off - 1
			if i < uint64(len(s.texts)) && s.def[i] {
				return s.texts[i], true
			}
			return "", false
		}
		off += s.size
	}
	return "", false
}

// byName returns the lowest id carrying the text.
func (t *rSymtab) byName(text string) (uint64, bool) {
	off := uint64(0)
	for _, s := range t.segs {
		for i := range s.texts {
			if uint64(i) < s.size && s.def[i] && s.texts[i] == text {
				return off + uint64(i) + 1, true
			}
		}
		off += s.size
	}
	return 0, false
}

func rSegOf(texts []string, size uint64) rSeg {
	s := rSeg{size: size}
	for i, t := range texts {
		if uint64(i) >= size {
			break
		}
		s.texts = append(s.texts, t)
		s.def = append(s.def, true)
	}
	return s
}

var vC09Pool = []string{"a", "name", "z", "c", ""}

var vC09Local = []string{"a", "z", ""} // texts local symbols are drawn from: in a shared table, nowhere else, empty

var vC09Shared = [][]string{
	{"a", "b", "c"},
	{"b", "name", "d", "a"},
	{"c", "c", "e"},
}

// vC09Import picks one import: a placeholder with arbitrary size, or a shared table adjusted to an arbitrary max_id.
func vC09Import(k int) (SharedSymbolTable, rSeg) {
	kind := vnondetInt(0, len(vC09Shared))
	if kind == 0 {
		size := vnondetU64()
		return &bogusSST{name: "missing", version: 1, maxID: size}, rSeg{size: size}
	}
	texts := vC09Shared[kind-1]
	t := NewSharedSymbolTable("shared", k+1, texts)
	if vnondetBool() {
		return t, rSegOf(texts, uint64(len(texts)))
	}
	size := vnondetU64()
	vassume(size>>40 == 0) // a shared table is materialised by Symbols(): sizes the API can allocate
	a := t.Adjust(size)
	return a, rSegOf(texts, size)
}

func vC09Build(nimp, nloc int) (imports []SharedSymbolTable, locals []string, ref *rSymtab) {
	ref = &rSymtab{}
	ref.segs = append(ref.segs, rSegOf(rSystemSymbols, 9))
	total := uint64(9)
	for k := 0; k < nimp; k++ {
		imp, seg := vC09Import(k)
		imports = append(imports, imp)
		ref.segs = append(ref.segs, seg)
		vassume(total+seg.size >= total) // no 64-bit overflow of the ID space
		total += seg.size
	}
	n := vnondetInt(0, nloc)
	for i := 0; i < n; i++ {
		locals = append(locals, vC09Local[vnondetInt(0, len(vC09Local)-1)])
	}
	vassume(total+uint64(n) >= total)
	ref.segs = append(ref.segs, rSegOf(locals, uint64(len(locals))))
	return
}

// vC09CheckTable: mode 0 checks FindByID for a symbolic id, mode 1 FindByName for every pool text, mode 2
// NewSymbolTokenBySID for a symbolic sid (separate modes so that their case splits add up instead of multiplying).
func vC09CheckTable(st SymbolTable, ref *rSymtab, mode int) {
	vassert(st.MaxID() == ref.maxID(), "MaxID equals the sum of all slots")
	switch mode {
	case 0:
		vC09CheckByID(st, ref)
	case 1:
		vC09CheckByName(st, ref)
	default:
		vC09CheckToken(st, ref)
	}
}

func vC09CheckByID(st SymbolTable, ref *rSymtab) {
	id := vnondetU64()
	gt, gok := st.FindByID(id)
	wt, wok := ref.byID(id)
	vassert(gok == wok, "FindByID defined exactly for IDs that carry text")
	if wok {
		vassert(gt == wt, "FindByID returns the text of the slot")
		vcover("id-hit")
	}
}

func vC09CheckByName(st SymbolTable, ref *rSymtab) {
	for _, text := range vC09Pool {
		gid, gok := st.FindByName(text)
		wid, wok := ref.byName(text)
		inKF := vknown("KF_C09_empty_text", text == "" && wok)
		if !inKF {
			vassert(gok == wok, "FindByName finds exactly the texts the table defines")
			if wok {
				vassert(gid == wid, "FindByName returns the lowest ID carrying the text")
				back, bok := st.FindByID(gid)
				vassert(bok && back == text, "looking that ID up returns the text")
				vcover("name-hit")
			}
		} else {
			vassert(gok == wok, "FindByName finds the empty symbol text")
		}
	}
}

func vC09CheckToken(st SymbolTable, ref *rSymtab) {
	sid := int64(vnondetU64())
	tok, err := NewSymbolTokenBySID(st, sid)
	if sid < 0 || uint64(sid) > ref.maxID() {
		vassert(err != nil, "NewSymbolTokenBySID rejects IDs outside 0..MaxID")
	} else {
		vassert(err == nil && tok.LocalSID == sid, "NewSymbolTokenBySID accepts IDs within 0..MaxID")
		wt, wok := ref.byID(uint64(sid))
		vassert((tok.Text != nil) == wok, "token has text exactly when the slot has")
		if wok {
			vassert(*tok.Text == wt, "token text is the slot's text")
		}
	}
}

func H_C09_ids() {
	nimp := vparam("nimp", 1)
	nloc := vparam("nloc", 1)
	imports, locals, ref := vC09Build(nimp, nloc)
	st := NewLocalSymbolTable(imports, locals)
	vC09CheckTable(st, ref, vparam("mode", 0))
	vcover("end")
}

// Builder: Add returns the existing ID for known text, appends otherwise, never renumbers, and Build is a snapshot.
func H_C09_builder() {
	nimp := vparam("nimp", 1)
	nadd := vparam("nadd", 2)
	imports, _, ref := vC09Build(nimp, 0)
	b := NewSymbolTableBuilder(imports...)
	var added []string
	var ids []uint64
	var snap SymbolTable
	var snapRef *rSymtab
	snapAt := vnondetInt(0, nadd)
	for i := 0; i < nadd; i++ {
		if i == snapAt {
			snap = b.Build()
			snapRef = &rSymtab{segs: append(append([]rSeg{}, ref.segs[:len(ref.segs)-1]...), rSegOf(added, uint64(len(added))))}
		}
		text := vC09Pool[vnondetInt(0, 3)] // a, name, z, c
		wid, known := ref.byName(text)
		before := ref.maxID()
		vassume(before+1 > before)
		gid, isNew := b.Add(text)
		if known {
			vassert(!isNew && gid == wid, "Add returns the existing ID for known text")
			vcover("known")
		} else {
			vassert(isNew && gid == before+1, "Add appends unknown text after the last ID")
			added = append(added, text)
			ref.segs[len(ref.segs)-1] = rSegOf(added, uint64(len(added)))
			vcover("new")
		}
		ids = append(ids, gid)
		for j := range ids {
			t, ok := b.FindByID(ids[j])
			vassert(ok, "IDs handed out earlier stay defined")
			_ = t
		}
	}
	if snap == nil {
		snap = b.Build()
		snapRef = ref
	}
	vC09CheckTable(b, ref, 1)
	vassert(snap.MaxID() == snapRef.maxID(), "Build is a snapshot: later Adds do not change it")
	for _, text := range vC09Pool {
		if text == "" {
			continue
		}
		gid, gok := snap.FindByName(text)
		wid, wok := snapRef.byName(text)
		vassert(gok == wok && (!wok || gid == wid), "snapshot resolves text as at Build time")
	}
	vcover("end")
}
