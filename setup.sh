#!/bin/sh
# Build the symbolic executor from files on disk only (module cache, no network).
set -e
cd "$(dirname "$0")/engine"
export GOFLAGS=-mod=mod GOPROXY=off GOSUMDB=off GOTOOLCHAIN=local
mkdir -p ../bin
go build -o ../bin/gosymex .
