package main

import (
	"fmt"
	"os"
	"sort"
	"strings"
	"time"

	"golang.org/x/tools/go/packages"
	"golang.org/x/tools/go/ssa"
	"golang.org/x/tools/go/ssa/ssautil"
)

var intrinsics = map[string]func(e *Engine, args []Value) Value{}

const P = "github.com/amzn/ion-go/ion."

func init() {
	intrinsics[P+"vnondetU64"] = func(e *Engine, a []Value) Value { return e.x.newNondet(64) }
	intrinsics[P+"vnondetU8"] = func(e *Engine, a []Value) Value { return e.x.newNondet(8) }
	intrinsics[P+"vnondetBytes"] = func(e *Engine, a []Value) Value {
		n := e.concInt(e.term(a[0]), true, "nondet bytes len", 64)
		arr := e.newArraySlot(byteType, n)
		for i := 0; i < n; i++ {
			arr.kids[i].val = e.x.newNondet(8)
		}
		return &SliceV{arr: arr, len: n, cap: n}
	}
	intrinsics[P+"vassume"] = func(e *Engine, a []Value) Value { e.x.assume(e.term(a[0])); return nil }
	intrinsics[P+"vassert"] = func(e *Engine, a []Value) Value { e.x.vassert(e.term(a[0]), "vassert#"+fmt.Sprint(e.x.asserts)); return nil }
	intrinsics[P+"vcover"] = func(e *Engine, a []Value) Value {
		s := a[0].(*StrV)
		var sb strings.Builder
		for _, c := range s.b {
			sb.WriteByte(byte(c.ConstU()))
		}
		e.x.covered[sb.String()]++
		return nil
	}
	opaqueStr := func(e *Engine, a []Value) Value { return e.strConst("<fmt>") }
	intrinsics["fmt.Sprintf"] = opaqueStr
	intrinsics["fmt.Errorf"] = func(e *Engine, a []Value) Value {
		return &Iface{t: errT, v: &Ptr{&Slot{}}}
	}
}

var byteType = ssaByte()
var errT = ssaErrT()

func main() {
	t0 := time.Now()
	harnessSrc, err := os.ReadFile(os.Args[1])
	if err != nil {
		panic(err)
	}
	cfg := &packages.Config{
		Mode:    packages.LoadAllSyntax,
		Dir:     "/repo",
		Overlay: map[string][]byte{"/repo/ion/zz_verif_harness.go": harnessSrc},
		Env:     append(os.Environ(), "GOFLAGS=-mod=mod", "GOPROXY=off"),
	}
	if m := os.Getenv("MUTATE"); m != "" { // file|old|new
		parts := strings.SplitN(m, "|", 3)
		src, err := os.ReadFile("/repo/ion/" + parts[0])
		if err != nil {
			panic(err)
		}
		if !strings.Contains(string(src), parts[1]) {
			panic("mutation target not found")
		}
		cfg.Overlay["/repo/ion/"+parts[0]] = []byte(strings.Replace(string(src), parts[1], parts[2], 1))
	}
	pkgs, err := packages.Load(cfg, "./ion")
	if err != nil {
		panic(err)
	}
	if packages.PrintErrors(pkgs) > 0 {
		os.Exit(2)
	}
	prog, spkgs := ssautil.AllPackages(pkgs, ssa.InstantiateGenerics)
	prog.Build()
	p := spkgs[0]
	fmt.Printf("loaded+built in %.1fs\n", time.Since(t0).Seconds())

	for _, name := range os.Args[2:] {
		fn := p.Func(name)
		if fn == nil {
			fmt.Println("no such harness", name)
			continue
		}
		bank := NewBank()
		sol, err := NewSolver(bank, 20000)
		if err != nil {
			panic(err)
		}
		if os.Getenv("SMTLOG") != "" {
			lf, _ := os.Create(os.Getenv("SMTLOG"))
			sol.log = lf
		}
		e := &Engine{prog: prog, pkg: p, b: bank, globals: map[*ssa.Global]*Slot{}, funcsEntered: map[string]int{}, loopBound: 70, allocLimit: 64}
		x := &Explorer{e: e, s: sol, b: bank, covered: map[string]int{}, seenViol: map[string]bool{}}
		e.x = x
		// run package init for the tables we need (only selected globals)
		e.initGlobals()
		t1 := time.Now()
		x.Run(fn)
		fmt.Printf("== %s: paths=%d pruned=%d unknown=%d queries=%d solver=%.2fs wall=%.2fs steps=%d terms=%d violations=%d\n",
			name, x.Paths, x.Pruned, x.Unknown, sol.Queries, sol.Time.Seconds(), time.Since(t1).Seconds(), e.steps, len(bank.terms), len(x.Violations))
		var cv []string
		for k, v := range x.covered {
			cv = append(cv, fmt.Sprintf("%s:%d", k, v))
		}
		sort.Strings(cv)
		fmt.Println("   covered:", cv)
		for _, v := range x.Violations {
			fmt.Println("   VIOLATION", describe(v))
		}
		var fe []string
		for k := range e.funcsEntered {
			fe = append(fe, strings.TrimPrefix(k, "github.com/amzn/ion-go/ion."))
		}
		sort.Strings(fe)
		fmt.Println("   functions:", strings.Join(fe, " "))
		sol.Close()
	}
}
