#!/bin/sh
# validates MANIFEST.json and every evidence file against the schemas
python3-vt - <<'PY'
import json,jsonschema,glob
jsonschema.validate(json.load(open('/verif/MANIFEST.json')),json.load(open('/root/.vp/MANIFEST.schema.json'))); print('MANIFEST ok')
s=json.load(open('/root/.vp/EVIDENCE.schema.json'))
for f in sorted(glob.glob('/verif/evidence/*.json')):
    try: jsonschema.validate(json.load(open(f)),s); print(f,'ok')
    except Exception as e: print(f,'INVALID',str(e)[:300])
m=json.load(open('/verif/MANIFEST.json'))
ids={c['property_id'] for c in m['checks']}|{n['property_id'] for n in m['not_applicable']}
print('covered ids:',len(ids), sorted(set('C%02d'%i for i in range(1,21))-ids))
PY
