package ion

// C02 (valid spellings are decoded exactly) and the text half of C07 (malformed text ends in an error), decided
// against the specification-derived reference parser refTextParse.
//
// A family (param fam) fixes a frame and an alphabet that exercises one part of the text grammar; X = k symbolic
// bytes over that alphabet are placed in the frame. The reference says whether the document is well-formed Ion text
// and which values it denotes. want=1 (C02): for every X the reference accepts, the real Reader yields exactly those
// values without error. want=0 (C07): for every X the reference rejects, a full traversal ends with a non-nil Err
// that is permanent. Inputs on which the reference is deliberately unsure (listed in ref_text.go) are excluded.

type vTextFam struct {
	prefix, suffix string
	alpha          string
}

var vTextFams = []vTextFam{
	0:  {"", " 7", "01_-.dDe+xb"},              // integers, radix forms, underscores, decimals, float exponents
	1:  {"\"", "\" 7", "\\\"nx0a'\nu/"},          // short string escapes
	2:  {"", " 7", "'a\\ \n/x"},                  // quoted symbols, long strings and their concatenation
	3:  {"", "", "[](){},:a1 "},                  // containers, separators, trailing commas, field names
	4:  {"", "1", "a:'\"{ $1n"},                  // annotations and what may carry them
	5:  {"null", " 7", ".intbol ("},              // null, null.type, keyword boundaries
	6:  {"{{", "}}", "AQ=+/ \"'\\}"},             // blobs (base64, padding, inner whitespace) and clobs
	7:  {"1", "2", "/* \n1a"},                    // comments and whitespace between values
	8:  {"2007-", " 7", "0123-T9"},               // timestamps: year-month(-day) shapes
	9:  {"(", ")", "()a1+-. /"},                  // s-expressions and operators
	10: {"{a:1", "}", ",}{ b:'\"2"},              // struct bodies
	11: {"[1", "]", ",] [2a\t\x0b"},              // list bodies, vertical tab as whitespace
	12: {"2007-02-23T10:", " 7", "0569Z+-: "},    // timestamps: minutes and what follows them
	13: {"'''a'''", " 7", "' \n/*\\b\""},         // what may follow a long string segment
	14: {"{{\"a", "}}", "\"'\\ }{\nx0"},          // clob tails
	15: {"", "", "truefalsn "},                   // keywords vs identifiers
	16: {"2007-02-", " 7", "01239T"},             // timestamps: day of month against the calendar
	17: {"2007-02-23T10:00:00", " 7", ".0Z+-1: "}, // timestamps: seconds, fraction, offset or Z
	18: {"2007-02-23T10:00+", ":00 7", "012345"}, // timestamps: offset hours
	19: {"2008-02-", "T 7", "01239"},             // leap year
	20: {"1e", " 7", "01_+-"},                    // float exponents: no digit grouping
	21: {"2007T", " 7", "0 TZ-:"},                // what may follow a year-precision timestamp
	22: {"1.", " 7", "05_dD-e"},                  // decimal fractions and exponents
	23: {"(null", "int)", " ./*\n"},              // null followed by an operator in an s-expression
	24: {"\"", "\" 7", "\x80\xc3\xa9\xe2\x82a\xf0"}, // UTF-8 well-formedness inside short strings
	25: {"'", "' 7", "\x80\xc3\xa9\xe2\x82a"},       // ... inside quoted symbols
	26: {"'''", "''' 7", "\x80\xc3\xa9a\xed\xa0"}, // ... inside long strings (incl. an encoded surrogate)
	27: {"'''a", "", "'a \n\\"},                // input that ends inside a long string or inside its closing quotes
	28: {"{{'''a", "", "'} a\\"},                // ... inside a long clob
	29: {"[1, '''a", "", "'] a"},                 // ... inside a long string inside a list
	30: {"\"ab", "", "\\\"nxu0"},                  // ... inside a short string or one of its escapes
	31: {"1 /", "", "*/ a\n"},                      // ... inside a comment
	32: {"{{\"a\\x", "\"}} 7", "0189aAfF"},         // hex escapes in clobs: one byte each, also above 0x7F
	33: {"\"a\\x", "\" 7", "0189aAfF"},             // hex escapes in strings: one code point each
}

func vInAlpha(c byte, alpha string) bool {
	for i := 0; i < len(alpha); i++ {
		if c == alpha[i] {
			return true
		}
	}
	return false
}

func H_C02_family() {
	fam := vTextFams[vparam("fam", 0)]
	k := vparam("k", 3)
	want := vparam("want", 1)
	x := vnondetBytes(k)
	for _, c := range x {
		vassume(vInAlpha(c, fam.alpha))
	}
	doc := vCat([]byte(fam.prefix), x, []byte(fam.suffix))
	evs, ok, unsure := refTextParse(doc)
	vassume(!unsure)
	if want < 2 { // want=2 (C06): valid and malformed inputs alike
		vassume(ok == (want == 1))
	}
	r := NewReaderBytes(doc)
	var got []vEv
	stepErr := vTraverse(r, 0, 8, false, &got)
	err := r.Err()
	if ok {
		vassert(err == nil && !stepErr, "valid Ion text is read without error")
		vassert(len(got) == len(evs), "the Reader yields exactly the denoted values")
		for i := range evs {
			vassert(tMatches(evs[i], got[i]), "each value is decoded to exactly what the text denotes")
		}
		vcover("valid")
	} else {
		vassert(err != nil || stepErr, "malformed Ion text ends in an error")
		vcover("malformed")
	}
	vAfter(r)
	vobserve("n", uint64(len(got)))
	vcover("end")
}
