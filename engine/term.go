package main

import (
	"fmt"
	"math/big"
	"strings"
)

type SortKind int

const (
	SBool SortKind = iota
	SBV
)

type Sort struct {
	K SortKind
	W int
}

func (s Sort) String() string {
	if s.K == SBool {
		return "Bool"
	}
	return fmt.Sprintf("(_ BitVec %d)", s.W)
}

type Op int

const (
	OConst Op = iota
	OVar
	ONot
	OAnd
	OOr
	OEq
	OIte
	OBvAdd
	OBvSub
	OBvMul
	OBvUDiv
	OBvURem
	OBvSDiv
	OBvSRem
	OBvAnd
	OBvOr
	OBvXor
	OBvShl
	OBvLShr
	OBvAShr
	OBvNeg
	OBvNot
	OBvULT
	OBvULE
	OBvSLT
	OBvSLE
	OConcat
	OExtract
	OZExt
	OSExt
)

var opNames = map[Op]string{ONot: "not", OAnd: "and", OOr: "or", OEq: "=", OIte: "ite", OBvAdd: "bvadd", OBvSub: "bvsub", OBvMul: "bvmul",
	OBvUDiv: "bvudiv", OBvURem: "bvurem", OBvSDiv: "bvsdiv", OBvSRem: "bvsrem", OBvAnd: "bvand", OBvOr: "bvor", OBvXor: "bvxor",
	OBvShl: "bvshl", OBvLShr: "bvlshr", OBvAShr: "bvashr", OBvNeg: "bvneg", OBvNot: "bvnot", OBvULT: "bvult", OBvULE: "bvule",
	OBvSLT: "bvslt", OBvSLE: "bvsle", OConcat: "concat"}

type Term struct {
	id      int
	op      Op
	sort    Sort
	args    []*Term
	val     *big.Int // const (bool: 0/1)
	name    string
	i1, i2  int
	emitted bool
}

type TermBank struct {
	tab   map[string]*Term
	terms []*Term
	nvars int
}

func NewBank() *TermBank { return &TermBank{tab: map[string]*Term{}} }

func (b *TermBank) mk(t *Term) *Term {
	var sb strings.Builder
	fmt.Fprintf(&sb, "%d|%d|%d|%d|%d|%s|", t.op, t.sort.K, t.sort.W, t.i1, t.i2, t.name)
	if t.val != nil {
		sb.WriteString(t.val.String())
	}
	for _, a := range t.args {
		fmt.Fprintf(&sb, "|%d", a.id)
	}
	k := sb.String()
	if e, ok := b.tab[k]; ok {
		return e
	}
	t.id = len(b.terms)
	b.terms = append(b.terms, t)
	b.tab[k] = t
	return t
}

func mask(w int) *big.Int {
	m := new(big.Int).Lsh(big.NewInt(1), uint(w))
	return m.Sub(m, big.NewInt(1))
}

func (b *TermBank) BV(v *big.Int, w int) *Term {
	x := new(big.Int).And(v, mask(w)) // works for negative via two's complement? big.And on negative uses infinite two's complement: yes
	return b.mk(&Term{op: OConst, sort: Sort{SBV, w}, val: x})
}
func (b *TermBank) BVu(v uint64, w int) *Term { return b.BV(new(big.Int).SetUint64(v), w) }
func (b *TermBank) BVi(v int64, w int) *Term  { return b.BV(big.NewInt(v), w) }
func (b *TermBank) Bool(v bool) *Term {
	x := big.NewInt(0)
	if v {
		x = big.NewInt(1)
	}
	return b.mk(&Term{op: OConst, sort: Sort{SBool, 0}, val: x})
}
func (b *TermBank) Var(name string, s Sort) *Term {
	return b.mk(&Term{op: OVar, sort: s, name: name})
}
func (t *Term) IsConst() bool { return t.op == OConst }
func (t *Term) ConstU() uint64 { return t.val.Uint64() }
func (t *Term) ConstBool() bool { return t.val.Sign() != 0 }
func (t *Term) ConstS() int64 { // signed interpretation
	w := t.sort.W
	v := new(big.Int).Set(t.val)
	if v.Bit(w-1) == 1 {
		v.Sub(v, new(big.Int).Lsh(big.NewInt(1), uint(w)))
	}
	return v.Int64()
}
func signed(v *big.Int, w int) *big.Int {
	x := new(big.Int).Set(v)
	if x.Bit(w-1) == 1 {
		x.Sub(x, new(big.Int).Lsh(big.NewInt(1), uint(w)))
	}
	return x
}

func (b *TermBank) Not(x *Term) *Term {
	if x.IsConst() {
		return b.Bool(!x.ConstBool())
	}
	if x.op == ONot {
		return x.args[0]
	}
	return b.mk(&Term{op: ONot, sort: Sort{SBool, 0}, args: []*Term{x}})
}
func (b *TermBank) And(x, y *Term) *Term {
	if x.IsConst() {
		if x.ConstBool() {
			return y
		}
		return x
	}
	if y.IsConst() {
		if y.ConstBool() {
			return x
		}
		return y
	}
	if x == y {
		return x
	}
	return b.mk(&Term{op: OAnd, sort: Sort{SBool, 0}, args: []*Term{x, y}})
}
func (b *TermBank) Or(x, y *Term) *Term {
	if x.IsConst() {
		if x.ConstBool() {
			return x
		}
		return y
	}
	if y.IsConst() {
		if y.ConstBool() {
			return y
		}
		return x
	}
	if x == y {
		return x
	}
	return b.mk(&Term{op: OOr, sort: Sort{SBool, 0}, args: []*Term{x, y}})
}
func (b *TermBank) Eq(x, y *Term) *Term {
	if x == y {
		return b.Bool(true)
	}
	if x.IsConst() && y.IsConst() {
		return b.Bool(x.val.Cmp(y.val) == 0)
	}
	if x.sort.K == SBool {
		if x.IsConst() {
			x, y = y, x
		}
		if y.IsConst() {
			if y.ConstBool() {
				return x
			}
			return b.Not(x)
		}
	}
	if x.id > y.id {
		x, y = y, x
	}
	return b.mk(&Term{op: OEq, sort: Sort{SBool, 0}, args: []*Term{x, y}})
}
func (b *TermBank) Ite(c, x, y *Term) *Term {
	if c.IsConst() {
		if c.ConstBool() {
			return x
		}
		return y
	}
	if x == y {
		return x
	}
	if x.sort.K == SBool && x.IsConst() && y.IsConst() {
		if x.ConstBool() {
			return c
		}
		return b.Not(c)
	}
	return b.mk(&Term{op: OIte, sort: x.sort, args: []*Term{c, x, y}})
}

func (b *TermBank) Bin(op Op, x, y *Term) *Term {
	w := x.sort.W
	if x.sort != y.sort {
		panic(fmt.Sprintf("sort mismatch in %v: %v vs %v", opNames[op], x.sort, y.sort))
	}
	if x.IsConst() && y.IsConst() {
		if r := foldBin(op, x.val, y.val, w); r != nil {
			switch op {
			case OBvULT, OBvULE, OBvSLT, OBvSLE:
				return b.Bool(r.Sign() != 0)
			}
			return b.BV(r, w)
		}
	}
	// light identities
	isZero := func(t *Term) bool { return t.IsConst() && t.val.Sign() == 0 }
	isOnes := func(t *Term) bool { return t.IsConst() && t.val.Cmp(mask(w)) == 0 }
	switch op {
	case OBvAdd, OBvOr, OBvXor:
		if isZero(x) {
			return y
		}
		if isZero(y) {
			return x
		}
	case OBvSub, OBvShl, OBvLShr, OBvAShr:
		if isZero(y) {
			return x
		}
	case OBvAnd:
		if isZero(x) || isZero(y) {
			return b.BVu(0, w)
		}
		if isOnes(x) {
			return y
		}
		if isOnes(y) {
			return x
		}
	case OBvMul:
		if isZero(x) || isZero(y) {
			return b.BVu(0, w)
		}
	}
	s := Sort{SBV, w}
	switch op {
	case OBvULT, OBvULE, OBvSLT, OBvSLE:
		s = Sort{SBool, 0}
	}
	return b.mk(&Term{op: op, sort: s, args: []*Term{x, y}})
}

func foldBin(op Op, a, c *big.Int, w int) *big.Int {
	m := mask(w)
	r := new(big.Int)
	bb := func(v bool) *big.Int {
		if v {
			return big.NewInt(1)
		}
		return big.NewInt(0)
	}
	switch op {
	case OBvAdd:
		return r.Add(a, c).And(r, m)
	case OBvSub:
		return r.Sub(a, c).And(r, m)
	case OBvMul:
		return r.Mul(a, c).And(r, m)
	case OBvAnd:
		return r.And(a, c)
	case OBvOr:
		return r.Or(a, c)
	case OBvXor:
		return r.Xor(a, c)
	case OBvShl:
		if c.Cmp(big.NewInt(int64(w))) >= 0 {
			return big.NewInt(0)
		}
		return r.Lsh(a, uint(c.Uint64())).And(r, m)
	case OBvLShr:
		if c.Cmp(big.NewInt(int64(w))) >= 0 {
			return big.NewInt(0)
		}
		return r.Rsh(a, uint(c.Uint64()))
	case OBvAShr:
		sa := signed(a, w)
		sh := uint(w)
		if c.Cmp(big.NewInt(int64(w))) < 0 {
			sh = uint(c.Uint64())
		}
		return r.Rsh(sa, sh).And(r, m)
	case OBvUDiv:
		if c.Sign() == 0 {
			return new(big.Int).Set(m)
		}
		return r.Quo(a, c)
	case OBvURem:
		if c.Sign() == 0 {
			return new(big.Int).Set(a)
		}
		return r.Rem(a, c)
	case OBvSDiv:
		if c.Sign() == 0 {
			return nil
		}
		return r.Quo(signed(a, w), signed(c, w)).And(r, m)
	case OBvSRem:
		if c.Sign() == 0 {
			return nil
		}
		return r.Rem(signed(a, w), signed(c, w)).And(r, m)
	case OBvULT:
		return bb(a.Cmp(c) < 0)
	case OBvULE:
		return bb(a.Cmp(c) <= 0)
	case OBvSLT:
		return bb(signed(a, w).Cmp(signed(c, w)) < 0)
	case OBvSLE:
		return bb(signed(a, w).Cmp(signed(c, w)) <= 0)
	}
	return nil
}

func (b *TermBank) Neg(x *Term) *Term {
	if x.IsConst() {
		return b.BV(new(big.Int).Neg(x.val), x.sort.W)
	}
	return b.mk(&Term{op: OBvNeg, sort: x.sort, args: []*Term{x}})
}
func (b *TermBank) BvNot(x *Term) *Term {
	if x.IsConst() {
		return b.BV(new(big.Int).Xor(x.val, mask(x.sort.W)), x.sort.W)
	}
	return b.mk(&Term{op: OBvNot, sort: x.sort, args: []*Term{x}})
}
func (b *TermBank) Extract(x *Term, hi, lo int) *Term {
	if hi == x.sort.W-1 && lo == 0 {
		return x
	}
	if x.IsConst() {
		r := new(big.Int).Rsh(x.val, uint(lo))
		return b.BV(r, hi-lo+1)
	}
	if (x.op == OZExt || x.op == OSExt) && lo == 0 && hi < x.args[0].sort.W {
		return b.Extract(x.args[0], hi, lo)
	}
	if x.op == OZExt && lo == 0 && hi >= x.args[0].sort.W {
		return b.ZExt(x.args[0], hi+1)
	}
	return b.mk(&Term{op: OExtract, sort: Sort{SBV, hi - lo + 1}, args: []*Term{x}, i1: hi, i2: lo})
}
func (b *TermBank) ZExt(x *Term, w int) *Term {
	if w == x.sort.W {
		return x
	}
	if w < x.sort.W {
		return b.Extract(x, w-1, 0)
	}
	if x.IsConst() {
		return b.BV(x.val, w)
	}
	if x.op == OZExt {
		return b.ZExt(x.args[0], w)
	}
	return b.mk(&Term{op: OZExt, sort: Sort{SBV, w}, args: []*Term{x}, i1: w - x.sort.W})
}
func (b *TermBank) SExt(x *Term, w int) *Term {
	if w == x.sort.W {
		return x
	}
	if w < x.sort.W {
		return b.Extract(x, w-1, 0)
	}
	if x.IsConst() {
		return b.BV(signed(x.val, x.sort.W), w)
	}
	return b.mk(&Term{op: OSExt, sort: Sort{SBV, w}, args: []*Term{x}, i1: w - x.sort.W})
}

// SMT printing: each non-leaf term is emitted once as a define-fun named tN.
func (t *Term) ref() string {
	switch t.op {
	case OConst:
		if t.sort.K == SBool {
			if t.ConstBool() {
				return "true"
			}
			return "false"
		}
		return fmt.Sprintf("(_ bv%s %d)", t.val.String(), t.sort.W)
	case OVar:
		return t.name
	}
	return fmt.Sprintf("t%d", t.id)
}

func (t *Term) body() string {
	var sb strings.Builder
	switch t.op {
	case OExtract:
		fmt.Fprintf(&sb, "((_ extract %d %d) %s)", t.i1, t.i2, t.args[0].ref())
	case OZExt:
		fmt.Fprintf(&sb, "((_ zero_extend %d) %s)", t.i1, t.args[0].ref())
	case OSExt:
		fmt.Fprintf(&sb, "((_ sign_extend %d) %s)", t.i1, t.args[0].ref())
	default:
		sb.WriteString("(" + opNames[t.op])
		for _, a := range t.args {
			sb.WriteString(" " + a.ref())
		}
		sb.WriteString(")")
	}
	return sb.String()
}

// evaluate a term under a model (vars -> big.Int); used for the model-based feasibility shortcut.
func (b *TermBank) Eval(t *Term, m map[string]*big.Int, cache map[int]*big.Int) *big.Int {
	if v, ok := cache[t.id]; ok {
		return v
	}
	var r *big.Int
	bb := func(v bool) *big.Int {
		if v {
			return big.NewInt(1)
		}
		return big.NewInt(0)
	}
	ev := func(i int) *big.Int { return b.Eval(t.args[i], m, cache) }
	switch t.op {
	case OConst:
		r = t.val
	case OVar:
		if v, ok := m[t.name]; ok {
			r = v
		} else {
			r = big.NewInt(0)
		}
	case ONot:
		r = bb(ev(0).Sign() == 0)
	case OAnd:
		r = bb(ev(0).Sign() != 0 && ev(1).Sign() != 0)
	case OOr:
		r = bb(ev(0).Sign() != 0 || ev(1).Sign() != 0)
	case OEq:
		r = bb(ev(0).Cmp(ev(1)) == 0)
	case OIte:
		if ev(0).Sign() != 0 {
			r = ev(1)
		} else {
			r = ev(2)
		}
	case OBvNeg:
		r = new(big.Int).Neg(ev(0))
		r.And(r, mask(t.sort.W))
	case OBvNot:
		r = new(big.Int).Xor(ev(0), mask(t.sort.W))
	case OExtract:
		r = new(big.Int).Rsh(ev(0), uint(t.i2))
		r.And(r, mask(t.sort.W))
	case OZExt:
		r = ev(0)
	case OSExt:
		r = new(big.Int).And(signed(ev(0), t.args[0].sort.W), mask(t.sort.W))
	case OConcat:
		r = new(big.Int).Lsh(ev(0), uint(t.args[1].sort.W))
		r.Or(r, ev(1))
	default:
		w := t.args[0].sort.W
		r = foldBin(t.op, ev(0), ev(1), w)
		if r == nil { // sdiv/srem by zero
			r = big.NewInt(0)
		}
	}
	cache[t.id] = r
	return r
}
